package wire

import (
	"fmt"
	"go/ast"
	"go/token"
	"go/types"
	"strings"
)

// rcur is the symbolic state of a byte-slice reader. Positions are absolute
// within the method's input: pos = base (bytes sliced off buf) + at.
type rcur struct {
	base  Lin
	at    Lin
	avail *Lin // absolute end of the region proven to exist; nil = nothing proven
	// countChecked: a check at this cursor position bounded the u32 count found here
	countChecked bool
	// countPer: bytes per element that check demanded
	countPer int
	// checkedVars: count variables bounded against the remaining input
	checkedVars map[string]bool
	// pendingRec: a nested record was decoded at the cursor and not yet stepped over
	pendingRec string
	// pendingType: Go type name of that record
	pendingType string
	// perIter is set inside a loop covered by a bulk check: bytes proven per iteration
}

func (c *rcur) pos() Lin { return c.base.Add(c.at) }

func (l *Lifter) covered(c *rcur, off, width Lin) bool {
	if c.avail == nil {
		return false
	}
	need := c.pos().Add(off).Add(width)
	return c.avail.Sub(need).NonNeg()
}

func (l *Lifter) needRead(c *rcur, off, width Lin, what string, leaf string, pos token.Pos) {
	if !l.Safe {
		return
	}
	if !l.covered(c, off, width) {
		have := "nothing"
		if c.avail != nil {
			have = c.avail.Sub(c.pos()).String() + " bytes"
		}
		l.fail("check", leaf, pos, "%s touches %s bytes at offset %s of the unread input but only %s are proven present by a preceding length check", what, width, off, have)
	}
}

type countVar struct {
	rawDst string // raw canonical operand of the map it sizes (filled at make)
	opDst  string
	// stream decoders: the count was tested against what is left of the
	// enclosing limiter, demanding limPer bytes per element
	limChecked bool
	limPer     int
}

// readCall matches iohelp.Read<Stem>Bytes(buf[at+o:]) possibly wrapped in a
// conversion T(...).
func (l *Lifter) readBytesCall(e ast.Expr) (stem string, off Lin, conv string, call *ast.CallExpr, ok bool) {
	inner, cv := l.stripConv(e)
	c, name, isIo := l.iohelpCall(inner)
	if !isIo {
		c, name, isIo = l.iohelpCall(e)
		cv = ""
	}
	if !isIo || len(c.Args) != 1 {
		return
	}
	off, ok = l.bufOffset(c.Args[0])
	if !ok {
		return
	}
	return name, off, cv, c, true
}

func (l *Lifter) LiftBR(fd *ast.FuncDecl) []Item {
	cur := &rcur{}
	counts := map[string]*countVar{}
	return l.brBlock(fd.Body.List, cur, counts, true)
}

// RemainingBelow matches the two spellings of "fewer than E bytes remain":
// len(buf[at:]) < E and len(buf)-at < E. Purely syntactic.
func RemainingBelow(cond ast.Expr) (bound ast.Expr, ok bool) {
	b, isBin := unparen(cond).(*ast.BinaryExpr)
	if !isBin || b.Op != token.LSS {
		return nil, false
	}
	isLenOf := func(e ast.Expr) (ast.Expr, bool) {
		c, isC := unparen(e).(*ast.CallExpr)
		if !isC || len(c.Args) != 1 {
			return nil, false
		}
		if id, isId := unparen(c.Fun).(*ast.Ident); !isId || id.Name != "len" {
			return nil, false
		}
		return unparen(c.Args[0]), true
	}
	named := func(e ast.Expr, n string) bool {
		id, isId := unparen(e).(*ast.Ident)
		return isId && id.Name == n
	}
	if arg, isLen := isLenOf(b.X); isLen {
		if se, isS := arg.(*ast.SliceExpr); isS && named(se.X, "buf") && se.High == nil && se.Low != nil && named(se.Low, "at") {
			return b.Y, true
		}
	}
	if sub, isSub := unparen(b.X).(*ast.BinaryExpr); isSub && sub.Op == token.SUB && named(sub.Y, "at") {
		if arg, isLen := isLenOf(sub.X); isLen && named(arg, "buf") {
			return b.Y, true
		}
	}
	return nil, false
}

// lenCheck matches  if len(buf[at:]) < E { return io.ErrUnexpectedEOF }  and
// if len(buf) == 0 / < E { return <err> }.
func (l *Lifter) lenCheck(s ast.Stmt) (rel string, e Lin, ok bool) {
	ifs, isIf := s.(*ast.IfStmt)
	if !isIf || ifs.Else != nil || ifs.Init != nil || len(ifs.Body.List) != 1 {
		return
	}
	ret, isRet := ifs.Body.List[0].(*ast.ReturnStmt)
	if !isRet || len(ret.Results) != 1 {
		return
	}
	if id, isId := unparen(ret.Results[0]).(*ast.Ident); isId && id.Name == "nil" {
		return
	}
	b, isBin := unparen(ifs.Cond).(*ast.BinaryExpr)
	if !isBin {
		return
	}
	// the same test written on the remaining length: len(buf)-at < E
	remaining := false
	lhs := unparen(b.X)
	if sub, isSub := lhs.(*ast.BinaryExpr); isSub && sub.Op == token.SUB && l.isIdent(unparen(sub.Y), "at") {
		if lc, isC := unparen(sub.X).(*ast.CallExpr); isC && len(lc.Args) == 1 && l.isIdent(unparen(lc.Args[0]), "buf") {
			if id, isId := unparen(lc.Fun).(*ast.Ident); isId && id.Name == "len" {
				remaining = true
				lhs = lc
			}
		}
	}
	c, isCall := lhs.(*ast.CallExpr)
	if !isCall || len(c.Args) != 1 {
		return
	}
	if id, isId := unparen(c.Fun).(*ast.Ident); !isId || id.Name != "len" {
		return
	}
	var bound Lin
	switch b.Op {
	case token.LSS:
		v, okv := l.lin(b.Y)
		if !okv {
			return
		}
		bound = v
	case token.LEQ:
		v, okv := l.lin(b.Y)
		if !okv {
			return
		}
		bound = v.Add(Const(1))
	case token.EQL:
		n, okn := intLit(b.Y)
		if !okn || n != 0 {
			return
		}
		bound = Const(1)
	default:
		return
	}
	arg := unparen(c.Args[0])
	if remaining {
		return "at", bound, true
	}
	if l.isIdent(arg, "buf") {
		return "buf", bound, true
	}
	if off, okb := l.bufOffset(arg); okb && off.IsZero() {
		return "at", bound, true
	}
	return
}

func (l *Lifter) brBlock(stmts []ast.Stmt, cur *rcur, counts map[string]*countVar, top bool) []Item {
	var items []Item
	defer func() {
		if cur.pendingRec != "" {
			l.fail("cursor", cur.pendingRec, token.NoPos, "the nested record %s is decoded from buf[at:] but the cursor is never moved past it: what follows is read from the same offset", cur.pendingRec)
			cur.pendingRec = ""
		}
	}()
	for i := 0; i < len(stmts); i++ {
		if top {
			if ns, ok := dispatchAsLoop(stmts, i, func(tag ast.Expr) bool {
				ix, isIx := unparen(tag).(*ast.IndexExpr)
				return isIx && l.isIdent(ix.X, "buf")
			}); ok {
				stmts = ns
			}
		}
		s := stmts[i]
		if top && l.prefixReject(s, l.brPrefixVar) {
			continue
		}
		if cur.pendingRec != "" {
			if _, isAcc := l.accStmt(s, "at"); !isAcc {
				if _, isTmp := s.(*ast.BlockStmt); !isTmp {
					if _, isEmpty := s.(*ast.EmptyStmt); !isEmpty {
						l.fail("cursor", cur.pendingRec, s.Pos(), "the nested record %s is decoded from buf[at:] but the cursor is not moved past it before the next statement", cur.pendingRec)
						cur.pendingRec = ""
					}
				}
			}
		}
		if as, ok := s.(*ast.AssignStmt); ok && as.Tok == token.DEFINE && len(as.Lhs) == 1 && l.isIdent(as.Lhs[0], "at") && top {
			if n, ok := intLit(as.Rhs[0]); ok && n == 0 {
				continue
			}
		}
		l.narrowMul = token.NoPos
		if rel, e, ok := l.lenCheck(s); ok {
			if l.narrowMul.IsValid() {
				// the demand was computed in a type that wraps: only its constant
				// part is a bound on anything
				l.fail("wrapcheck", "", l.narrowMul, "the length check multiplies a count taken from the wire in an integer narrower than 64 bits: for large counts the product wraps and the check passes")
				e = Const(e.C)
			}
			var end Lin
			if rel == "at" {
				end = cur.pos().Add(e)
			} else {
				end = cur.base.Add(e)
			}
			if cur.avail == nil || end.Sub(*cur.avail).NonNeg() {
				cur.avail = &end
			}
			if rel == "at" {
				for t, k := range e.T {
					if k > 0 && t == "wirelen(at)" {
						cur.countChecked = true
						cur.countPer = k
					}
					if k > 0 && strings.HasPrefix(t, "val(") {
						if cur.checkedVars == nil {
							cur.checkedVars = map[string]bool{}
						}
						cur.checkedVars[strings.TrimSuffix(strings.TrimPrefix(t, "val("), ")")] = true
					}
				}
			}
			continue
		}
		if d, ok := l.accStmt(s, "at"); ok {
			if cur.pendingRec != "" && l.RecClass != nil {
				// spec: a nested message occupies 4 (length) + length bytes, a nested
				// union 4 (length) + 1 (discriminator) + length bytes, and a struct
				// has no length on the wire at all
				want := map[string]int{"message": 4, "union": 5}
				cls := l.RecClass(cur.pendingType)
				if k, ok := want[cls]; ok {
					if exp := Const(k).Add(Term("wirelen(at)", 1)); d.String() != exp.String() {
						l.fail("cursor", cur.pendingRec, s.Pos(), "after the nested %s %s the cursor moves by %s; on the wire it occupies %s", cls, cur.pendingRec, d, exp)
					}
				} else if cls == "struct" && d.T["wirelen(at)"] != 0 {
					l.fail("cursor", cur.pendingRec, s.Pos(), "after the nested struct %s the cursor moves by %s, but a struct carries no length prefix", cur.pendingRec, d)
				} else if cls == "struct" && len(d.T) == 0 {
					// a constant step is right only for a struct of exactly that fixed size
					size, fixed := -1, false
					if l.RecFixed != nil {
						size, fixed = l.RecFixed(cur.pendingType)
					}
					if !fixed || size != d.C {
						l.fail("cursor", cur.pendingRec, s.Pos(), "after the nested struct %s the cursor moves by the constant %d; the struct %s", cur.pendingRec, d.C,
							map[bool]string{true: sprintf("occupies %d bytes", size), false: "has no fixed size (it holds a string, an array, a map or a record with a length)"}[fixed])
					}
				}
			}
			cur.pendingRec = ""
			cur.countChecked = false
			if cur.avail != nil && cur.avail.T["wirelen(at)"] != 0 && d.T["wirelen(at)"] == 0 {
				// the bound was phrased in terms of the count at the old cursor
				// position: keep only its constant part
				e := cur.pos().Add(Const(0))
				if c := cur.avail.Sub(cur.pos()); c.C > 0 {
					e = cur.pos().Add(Const(min(c.C, 4)))
				}
				cur.avail = &e
			}
			if d.T["wirelen(at)"] != 0 {
				// skipping a nested record by the length it declares on the wire;
				// the callee that just succeeded proved those bytes exist
				l.WireAdv++
				e := cur.pos().Add(d)
				cur.avail = &e
			}
			cur.at = cur.at.Add(d)
			continue
		}
		if d, ok := l.tmpBlock(s, "at"); ok {
			// advance by Size() of a decoded value: not derived from the wire
			leaf := ""
			for k := range d.T {
				leaf = strings.TrimSuffix(strings.TrimPrefix(k, "size("), ")")
			}
			l.fail("sizeadv", leaf, s.Pos(), "cursor is advanced by %s — the Size() of the value just decoded, not a byte count taken from the input", d)
			cur.pendingRec = ""
			cur.at = cur.at.Add(d)
			continue
		}
		switch x := s.(type) {
		case *ast.EmptyStmt:
			continue
		case *ast.AssignStmt:
			if it, n, ok := l.brAssign(x, stmts[i+1:], cur, counts); ok {
				i += n
				items = append(items, it...)
				continue
			}
		case *ast.ExprStmt:
			// copy(dst, buf[at:at+len(dst)])
			if c, ok := unparen(x.X).(*ast.CallExpr); ok {
				if id, ok := unparen(c.Fun).(*ast.Ident); ok && id.Name == "copy" && len(c.Args) == 2 {
					if se, ok := unparen(c.Args[1]).(*ast.SliceExpr); ok && l.isIdent(se.X, "buf") && se.Low != nil && se.High != nil {
						lo, ok1 := l.atRel(se.Low)
						hi, ok2 := l.atRel(se.High)
						if ok1 && ok2 {
							it := Item{Kind: KRaw, Operand: l.op(c.Args[0]), Pos: s.Pos()}
							w := hi.Sub(lo)
							if !w.Eq(Term("len("+it.Operand+")", 1)) {
								l.fail("cursor", it.Operand, s.Pos(), "copy reads %s bytes into a destination of len(%s)", w, it.Operand)
							}
							l.needRead(cur, lo, w, "copy from buf", it.Operand, s.Pos())
							items = append(items, it)
							continue
						}
					}
				}
			}
		case *ast.RangeStmt:
			// for i := range dst { ... }
			if id, ok := x.Key.(*ast.Ident); ok && x.Value == nil {
				l.depth++
				d := l.depth
				raw := CanonOperand(x.X)
				over := l.op(x.X)
				if keyShadows(x.X, id) {
					// for i := range m[i]: m[i][i] in the body is not the element
					l.pushRename("\x00\x00shadowed", fmt.Sprintf("$v%d", d))
				} else {
					l.pushRename(raw+"["+id.Name+"]", fmt.Sprintf("$v%d", d))
				}
				inner := &rcur{base: cur.base, at: cur.at, checkedVars: cur.checkedVars}
				// bulk check: len(over)*w bytes proven before the loop
				per := 0
				if cur.avail != nil {
					rem := cur.avail.Sub(cur.pos())
					if k, ok := rem.T["len("+over+")"]; ok && k > 0 && rem.Sub(Term("len("+over+")", k)).NonNeg() {
						per = k
						e := inner.pos().Add(Const(k))
						inner.avail = &e
					}
				}
				body := l.brBlock(x.Body.List, inner, counts, false)
				consumed := inner.at.Sub(cur.at)
				if per > 0 && !(consumed.IsConst() && consumed.C <= per) && l.Safe {
					l.fail("check", over, s.Pos(), "loop over %s is covered by a bulk check of %d bytes per element but one iteration consumes %s", over, per, consumed)
				}
				l.popRenames(1)
				l.depth--
				// after the loop the cursor moved by len(over)*consumed (if constant) or an unknown amount
				if consumed.IsConst() {
					cur.at = cur.at.Add(Term("len("+over+")", consumed.C))
				} else {
					cur.at = cur.at.Add(Term("loop("+over+")", 1))
					cur.avail = nil
				}
				items = append(items, Item{Kind: KLoop, Operand: over, Body: body, Pos: s.Pos()})
				continue
			}
		case *ast.ForStmt:
			// for i := uint32(0); i < lnN; i++ { ... }   (map entries)
			if x.Cond != nil && x.Init != nil {
				if b, ok := unparen(x.Cond).(*ast.BinaryExpr); ok && b.Op == token.LSS {
					if id, ok := unparen(b.Y).(*ast.Ident); ok {
						if cv := counts[id.Name]; cv != nil && cv.opDst != "" {
							items = append(items, l.brMapLoop(x, cv, cur, counts))
							continue
						}
					}
				}
			}
			// for { switch buf[at] { ... } }
			if x.Cond == nil && x.Init == nil && x.Post == nil && (len(x.Body.List) == 1 || len(x.Body.List) == 2) {
				var loopCheck *Lin
				swStmt := x.Body.List[len(x.Body.List)-1]
				if len(x.Body.List) == 2 {
					if rel, e, ok := l.lenCheck(x.Body.List[0]); ok && rel == "at" {
						loopCheck = &e
					} else {
						swStmt = nil
					}
				}
				if sw, ok := swStmt.(*ast.SwitchStmt); ok && sw.Init == nil && sw.Tag != nil {
					if ix, ok := unparen(sw.Tag).(*ast.IndexExpr); ok && l.isIdent(ix.X, "buf") {
						if off, ok := l.atRel(ix.Index); ok {
							// every iteration starts at an unknown position, unless
							// every arm returns (the loop body runs at most once)
							allReturn := true
							for _, cc := range sw.Body.List {
								cl := cc.(*ast.CaseClause)
								if n := len(cl.Body); n == 0 {
									allReturn = false
								} else if _, isRet := cl.Body[n-1].(*ast.ReturnStmt); !isRet {
									allReturn = false
								}
							}
							if !allReturn {
								cur.at = cur.at.Add(Term("iter", 1))
								cur.avail = nil
							}
							if loopCheck != nil {
								e := cur.pos().Add(*loopCheck)
								cur.avail = &e
							}
							l.needRead(cur, off, Const(1), "switch buf[at]", "tag", sw.Pos())
							it := Item{Kind: KSwitch, Pos: s.Pos()}
							for _, cc := range sw.Body.List {
								cl := cc.(*ast.CaseClause)
								inner := &rcur{base: cur.base, at: cur.at, avail: cur.avail, checkedVars: cur.checkedVars}
								body := l.brBlock(cl.Body, inner, counts, false)
								c := Case{Default: cl.List == nil}
								if !c.Default {
									n, ok := intLit(cl.List[0])
									if !ok || len(cl.List) != 1 {
										body = append(body, l.unknown(cl))
									}
									c.Tag = n
									// the tag byte itself must be consumed
									if !(len(cl.Body) > 0 && func() bool { d, ok := l.accStmt(cl.Body[0], "at"); return ok && d.Eq(Const(1)) }()) {
										l.fail("cursor", "tag", cl.Pos(), "case %d does not step over its tag byte first", n)
									}
								}
								if n := len(body); n > 0 && body[n-1].Kind == KUnknown && body[n-1].Text == "$return" {
									c.Returns = true
									body = body[:n-1]
								}
								c.Body = body
								it.Cases = append(it.Cases, c)
							}
							items = append(items, it)
							continue
						}
					}
				}
			}
		case *ast.ReturnStmt:
			r := ""
			if len(x.Results) == 1 {
				r = Canon(x.Results[0])
			}
			l.Returns = append(l.Returns, r)
			if !top {
				items = append(items, Item{Kind: KUnknown, Text: "$return", Pos: s.Pos()})
			}
			continue
		}
		items = append(items, l.unknown(s))
	}
	return items
}

func (l *Lifter) brMapLoop(x *ast.ForStmt, cv *countVar, cur *rcur, counts map[string]*countVar) Item {
	l.depth++
	d := l.depth
	// the key variable is the first variable the body defines from a read
	key := ""
	for _, st := range x.Body.List {
		if as, ok := st.(*ast.AssignStmt); ok && as.Tok == token.DEFINE && len(as.Lhs) >= 1 {
			if id, ok := as.Lhs[0].(*ast.Ident); ok && len(as.Rhs) == 1 {
				if _, _, ok := l.iohelpCall(stripOneConv(as.Rhs[0])); ok {
					key = id.Name
					break
				}
			}
		}
	}
	n := 0
	if key != "" {
		l.pushRename(key, fmt.Sprintf("$k%d", d))
		l.pushRename(cv.rawDst+"["+key+"]", fmt.Sprintf("$v%d", d))
		n = 2
	}
	inner := &rcur{base: cur.base, at: cur.at.Add(Term("iter", 1)), checkedVars: cur.checkedVars}
	body := l.brBlock(x.Body.List, inner, counts, false)
	l.popRenames(n)
	l.depth--
	cur.at = cur.at.Add(Term("loop("+cv.opDst+")", 1))
	cur.avail = nil
	it := Item{Kind: KMapLoop, Operand: cv.opDst, Pos: x.Pos()}
	it.Key, it.Body = splitMapBody(body, d)
	return it
}

func stripOneConv(e ast.Expr) ast.Expr {
	e = unparen(e)
	if c, ok := e.(*ast.CallExpr); ok && len(c.Args) == 1 {
		if _, ok := unparen(c.Fun).(*ast.SelectorExpr); !ok {
			return unparen(c.Args[0])
		}
		// pkg.Type(x) conversions never occur in emitted code; iohelp.F(x) is a call
	}
	return e
}

// brAssign handles the assignment forms of a byte-slice reader. It returns
// the items, and how many following statements it consumed.
func (l *Lifter) brAssign(x *ast.AssignStmt, rest []ast.Stmt, cur *rcur, counts map[string]*countVar) ([]Item, int, bool) {
	pos := x.Pos()
	// buf = buf[n:]
	if len(x.Lhs) == 1 && len(x.Rhs) == 1 && x.Tok == token.ASSIGN && l.isIdent(x.Lhs[0], "buf") {
		if se, ok := unparen(x.Rhs[0]).(*ast.SliceExpr); ok && l.isIdent(se.X, "buf") && se.High == nil && se.Low != nil {
			if n, ok := intLit(se.Low); ok {
				if l.Safe {
					if cur.avail == nil || !cur.avail.Sub(cur.base.Add(Const(n))).NonNeg() {
						l.fail("check", "prefix", pos, "buf = buf[%d:] slices off %d bytes that no preceding length check proves present", n, n)
					}
				}
				cur.base = cur.base.Add(Const(n))
				return nil, 0, true
			}
		}
	}
	// buf = buf[:n]   (bound the record by its declared length)
	if len(x.Lhs) == 1 && len(x.Rhs) == 1 && x.Tok == token.ASSIGN && l.isIdent(x.Lhs[0], "buf") {
		if se, ok := unparen(x.Rhs[0]).(*ast.SliceExpr); ok && l.isIdent(se.X, "buf") && se.Low == nil && se.High != nil {
			if n, ok := l.lin(se.High); ok {
				if l.Safe {
					if cur.avail == nil || !cur.avail.Sub(cur.base.Add(n)).NonNeg() {
						l.fail("check", "prefix", pos, "buf = buf[:%s] keeps %s bytes that no preceding length check proves present", n, n)
					}
				}
				return nil, 0, true
			}
		}
	}
	// bodyLen := int(iohelp.ReadUint32Bytes(buf[at:]))   (length prefix, kept)
	if len(x.Lhs) == 1 && len(x.Rhs) == 1 && x.Tok == token.DEFINE {
		if id, ok := x.Lhs[0].(*ast.Ident); ok && !strings.HasPrefix(id.Name, "ln") {
			if name, off, conv, _, ok := l.readBytesCall(x.Rhs[0]); ok && name == "ReadUint32Bytes" && (conv == "int" || conv == "") && cur.at.IsZero() && cur.base.IsZero() {
				l.needRead(cur, off, Const(4), "length-prefix read", "prefix", pos)
				l.brPrefixVar = id.Name
				return []Item{{Kind: KPrefix, Tag: -1, Pos: pos}}, 0, true
			}
		}
	}
	// x = new(T)
	if len(x.Lhs) == 1 && len(x.Rhs) == 1 && x.Tok == token.ASSIGN {
		if c, ok := unparen(x.Rhs[0]).(*ast.CallExpr); ok {
			if id, ok := unparen(c.Fun).(*ast.Ident); ok && id.Name == "new" {
				return nil, 0, true
			}
		}
	}
	// _ = iohelp.ReadUint32Bytes(buf[at:])   (length prefix, discarded)
	if len(x.Lhs) == 1 && len(x.Rhs) == 1 && l.isIdent(x.Lhs[0], "_") {
		if name, off, _, _, ok := l.readBytesCall(x.Rhs[0]); ok && name == "ReadUint32Bytes" {
			l.needRead(cur, off, Const(4), "length-prefix read", "prefix", pos)
			cur.avail = clampAvail(cur)
			return []Item{{Kind: KPrefix, Tag: -1, Pos: pos}}, 0, true
		}
	}
	// lnN := iohelp.ReadUint32Bytes(buf[at:])
	if len(x.Lhs) == 1 && len(x.Rhs) == 1 && x.Tok == token.DEFINE {
		if id, ok := x.Lhs[0].(*ast.Ident); ok {
			if name, off, conv, _, ok := l.readBytesCall(x.Rhs[0]); ok && name == "ReadUint32Bytes" && conv == "" && strings.HasPrefix(id.Name, "ln") {
				l.needRead(cur, off, Const(4), "map count read", "mapcount", pos)
				counts[id.Name] = &countVar{}
				return nil, 0, true
			}
		}
	}
	// dst = make(...)
	if len(x.Lhs) == 1 && len(x.Rhs) == 1 {
		if c, ok := unparen(x.Rhs[0]).(*ast.CallExpr); ok {
			if id, ok := unparen(c.Fun).(*ast.Ident); ok && id.Name == "make" {
				dst := l.op(x.Lhs[0])
				t := l.Info.TypeOf(c.Args[0])
				if isMapType(t) {
					a := Alloc{Operand: dst, Kind: "map", Pos: pos}
					if len(c.Args) == 2 {
						if cid, ok := unparen(c.Args[1]).(*ast.Ident); ok && counts[cid.Name] != nil {
							counts[cid.Name].rawDst = CanonOperand(x.Lhs[0])
							counts[cid.Name].opDst = dst
							a.Hint = true
							a.Bounded = cur.checkedVars[cid.Name]
							l.Allocs = append(l.Allocs, a)
							return []Item{{Kind: KCount, Operand: dst, Pos: pos}}, 0, true
						}
					}
				} else if len(c.Args) == 2 {
					if name, off, conv, _, ok := l.readBytesCall(c.Args[1]); ok && name == "ReadUint32Bytes" && conv == "" {
						l.needRead(cur, off, Const(4), "array count read", "arraycount", pos)
						a := Alloc{Operand: dst, Kind: "slice", Hint: true, Pos: pos, Bounded: cur.countChecked}
						if sl, ok := t.Underlying().(*types.Slice); ok {
							if st, ok := sl.Elem().Underlying().(*types.Struct); ok && st.NumFields() == 0 {
								a.ZeroSize = true
							}
						}
						// the count check may not demand more per element than the
						// smallest encoding of an element occupies
						if sl, ok := t.Underlying().(*types.Slice); ok && cur.countChecked && cur.countPer > 0 {
							if m := l.minWire(sl.Elem(), 0); m >= 0 && cur.countPer > m {
								l.fail("overcheck", dst, pos, "the count check before make(%s) demands %d byte(s) per element, but an element of this type can occupy as little as %d on the wire: a valid encoding with more elements than bytes that follow is rejected", dst, cur.countPer, m)
							}
						}
						// bounded iff a later-needed bulk check already ran: never, when make comes first
						l.Allocs = append(l.Allocs, a)
						return []Item{{Kind: KCount, Operand: dst, Pos: pos}}, 0, true
					}
				}
			}
		}
	}
	// string / record with error:  dst, err = F(buf[at:])
	if len(x.Lhs) == 2 && len(x.Rhs) == 1 && l.isIdent(x.Lhs[1], "err") {
		dst := l.op(x.Lhs[0])
		n := 0
		if len(rest) > 0 && isErrReturn(rest[0]) {
			n = 1
		} else {
			l.fail("errprop", dst, pos, "error result of the read into %s is not returned immediately", dst)
		}
		if name, off, _, _, ok := l.readBytesCall(x.Rhs[0]); ok && (name == "ReadStringBytes" || name == "ReadStringBytesSharedMemory") {
			if !off.IsZero() {
				return nil, 0, false
			}
			// the helper checks its own bounds; on success 4+len(dst) bytes exist
			e := cur.pos().Add(Const(4)).Add(Term("len("+dst+")", 1))
			cur.avail = &e
			return []Item{{Kind: KCount, Operand: dst, Pos: pos}, {Kind: KRaw, Operand: dst, Pos: pos}}, n, true
		}
		if c, ok := unparen(x.Rhs[0]).(*ast.CallExpr); ok && len(c.Args) == 1 {
			if off, ok := l.bufOffset(c.Args[0]); ok && off.IsZero() {
				fn := Canon(c.Fun)
				base := fn[strings.LastIndex(fn, ".")+1:]
				lower := strings.ToLower(base)
				if strings.HasPrefix(lower, "make") && strings.HasSuffix(base, "FromBytes") {
					cur.pendingRec = dst
					cur.pendingType = base[4 : len(base)-len("FromBytes")]
					return []Item{{Kind: KRec, Operand: dst, Type: base[4 : len(base)-len("FromBytes")], Pos: pos}}, n, true
				}
			}
		}
		return nil, 0, false
	}
	// plain single assignment reads
	if len(x.Lhs) == 1 && len(x.Rhs) == 1 {
		dst := l.op(x.Lhs[0])
		if name, off, conv, _, ok := l.readBytesCall(x.Rhs[0]); ok {
			switch {
			case name == "MustReadStringBytes" || name == "MustReadStringBytesSharedMemory":
				if l.Safe {
					l.fail("unchecked", dst, pos, "the checked decoder calls the unchecked helper iohelp.%s", name)
				}
				return []Item{{Kind: KCount, Operand: dst, Pos: pos}, {Kind: KRaw, Operand: dst, Pos: pos}}, 0, true
			case strings.HasPrefix(name, "Read") && strings.HasSuffix(name, "Bytes"):
				stem := strings.TrimSuffix(strings.TrimPrefix(name, "Read"), "Bytes")
				w, known := widthOfStem[stem]
				if !known {
					return nil, 0, false
				}
				it := Item{Kind: KScalar, Prim: stem, Operand: dst, Pos: pos}
				if conv != "" {
					if l.invalidType(x.Rhs[0]) {
						// the emitted file does not type-check here: what the
						// conversion is cannot be told (C12 reports the error)
						return []Item{l.unknown(x)}, 0, true
					}
					if t := l.Info.TypeOf(x.Rhs[0]); t != nil {
						if _, named := t.(*types.Named); named {
							it.Enum = true
						}
					}
				}
				l.needRead(cur, off, Const(w), "iohelp."+name, dst, pos)
				return []Item{it}, 0, true
			}
		}
		if c, ok := unparen(x.Rhs[0]).(*ast.CallExpr); ok && len(c.Args) == 1 {
			if off, ok := l.bufOffset(c.Args[0]); ok && off.IsZero() {
				fn := Canon(c.Fun)
				base := fn[strings.LastIndex(fn, ".")+1:]
				if strings.HasPrefix(strings.ToLower(base), "mustmake") && strings.HasSuffix(base, "FromBytes") {
					if l.Safe {
						l.fail("unchecked", dst, pos, "the checked decoder calls the unchecked constructor %s", base)
					}
					cur.pendingRec = dst
					cur.pendingType = base[8 : len(base)-len("FromBytes")]
					return []Item{{Kind: KRec, Operand: dst, Type: base[8 : len(base)-len("FromBytes")], Pos: pos}}, 0, true
				}
			}
		}
	}
	return nil, 0, false
}

func clampAvail(c *rcur) *Lin { return c.avail }

// ---- DecodeBebop ----------------------------------------------------------

func (l *Lifter) readStreamCall(e ast.Expr) (name string, conv string, ok bool) {
	inner, cv := l.stripConv(e)
	c, nm, isIo := l.iohelpCall(inner)
	if !isIo {
		c, nm, isIo = l.iohelpCall(e)
		cv = ""
	}
	if !isIo || len(c.Args) != 1 || !l.isIdent(c.Args[0], "r") {
		return
	}
	return nm, cv, true
}

func (l *Lifter) LiftSR(fd *ast.FuncDecl) []Item {
	counts := map[string]*countVar{}
	limited := false
	return l.srBlock(fd.Body.List, counts, &limited, true)
}

// limitedReaderLit matches &io.LimitedReader{R: base, N: int64(prefix)[+k]}.
func (l *Lifter) limitedReaderLit(e ast.Expr) (base, prefix string, extra int, ok bool) {
	u, isU := unparen(e).(*ast.UnaryExpr)
	if !isU || u.Op != token.AND {
		return
	}
	cl, isCl := unparen(u.X).(*ast.CompositeLit)
	if !isCl || Canon(cl.Type) != "io.LimitedReader" {
		return
	}
	for _, el := range cl.Elts {
		kv, isKV := el.(*ast.KeyValueExpr)
		if !isKV {
			return "", "", 0, false
		}
		switch Canon(kv.Key) {
		case "R":
			base = Canon(kv.Value)
		case "N":
			v := unparen(kv.Value)
			if b, isB := v.(*ast.BinaryExpr); isB && b.Op == token.ADD {
				if n, isN := intLit(b.Y); isN {
					extra = n
					v = unparen(b.X)
				}
			}
			if c, isC := v.(*ast.CallExpr); isC && Canon(c.Fun) == "int64" && len(c.Args) == 1 {
				prefix = Canon(c.Args[0])
			}
		}
	}
	return base, prefix, extra, base != "" && prefix != ""
}

func (l *Lifter) srBlock(stmts []ast.Stmt, counts map[string]*countVar, limited *bool, top bool) []Item {
	var items []Item
	pendingLimit := map[string]bool{}
	for i := 0; i < len(stmts); i++ {
		if top {
			if ns, ok := labelledExitAsTail(stmts, i); ok {
				stmts = ns
			}
			if ns, ok := dispatchAsLoop(stmts, i, func(tag ast.Expr) bool {
				name, _, isRead := l.readStreamCall(tag)
				return isRead && name == "ReadByte"
			}); ok {
				stmts = ns
			}
		}
		s := stmts[i]
		switch x := s.(type) {
		case *ast.EmptyStmt:
			continue
		case *ast.AssignStmt:
			pos := x.Pos()
			if len(x.Lhs) == 1 && len(x.Rhs) == 1 {
				lhs, rhs := x.Lhs[0], x.Rhs[0]
				// r := iohelp.NewErrorReader(ior)
				if x.Tok == token.DEFINE && l.isIdent(lhs, "r") && top {
					if c, name, ok := l.iohelpCall(rhs); ok && name == "NewErrorReader" && len(c.Args) == 1 {
						continue
					}
				}
				// baseReader := r.Reader
				if x.Tok == token.DEFINE && Canon(rhs) == "r.Reader" {
					l.Lim.BaseVar = Canon(lhs)
					continue
				}
				// limitReader := &io.LimitedReader{...}
				if x.Tok == token.DEFINE {
					if base, prefix, extra, ok := l.limitedReaderLit(rhs); ok {
						pendingLimit[Canon(lhs)] = true
						l.Lim.PrefixVar, l.Lim.Extra, l.Lim.Pos = prefix, extra, pos
						l.Lim.OKShape = base == l.Lim.BaseVar
						continue
					}
				}
				// r.Reader = ...
				if x.Tok == token.ASSIGN && Canon(lhs) == "r.Reader" {
					if base, prefix, extra, ok := l.limitedReaderLit(rhs); ok {
						l.Lim.Installed = true
						l.Lim.PrefixVar, l.Lim.Extra, l.Lim.Pos = prefix, extra, pos
						l.Lim.OKShape = base == l.Lim.BaseVar
						*limited = true
						continue
					}
					if pendingLimit[Canon(rhs)] {
						l.Lim.Installed = true
						*limited = true
						continue
					}
					if Canon(rhs) == l.Lim.BaseVar && l.Lim.BaseVar != "" {
						*limited = false
						continue
					}
				}
				// x = new(T)
				if c, ok := unparen(rhs).(*ast.CallExpr); ok {
					if id, ok := unparen(c.Fun).(*ast.Ident); ok && id.Name == "new" && x.Tok == token.ASSIGN {
						continue
					}
				}
				dst := l.op(lhs)
				// dst = make(...)
				if c, ok := unparen(rhs).(*ast.CallExpr); ok {
					if id, ok := unparen(c.Fun).(*ast.Ident); ok && id.Name == "make" {
						t := l.Info.TypeOf(c.Args[0])
						if isMapType(t) {
							a := Alloc{Operand: dst, Kind: "map", Stream: true, Pos: pos}
							if len(c.Args) == 2 {
								if cid, ok := unparen(c.Args[1]).(*ast.Ident); ok && counts[cid.Name] != nil {
									a.Hint = true
									cv := counts[cid.Name]
									cv.rawDst, cv.opDst = CanonOperand(lhs), dst
									l.Allocs = append(l.Allocs, a)
									items = append(items, Item{Kind: KCount, Operand: dst, Pos: pos})
									continue
								}
							} else if len(c.Args) == 1 {
								// the count variable read just before sizes the following loop
								for name, cv := range counts {
									if cv.opDst == "" {
										cv.rawDst, cv.opDst = CanonOperand(lhs), dst
										_ = name
									}
								}
								l.Allocs = append(l.Allocs, a)
								items = append(items, Item{Kind: KCount, Operand: dst, Pos: pos})
								continue
							}
						} else if len(c.Args) == 2 {
							if name, conv, ok := l.readStreamCall(c.Args[1]); ok && name == "ReadUint32" && conv == "" {
								l.Allocs = append(l.Allocs, Alloc{Operand: dst, Kind: "slice", Stream: true, Hint: true, Pos: pos})
								items = append(items, Item{Kind: KCount, Operand: dst, Pos: pos})
								continue
							}
							// dst = make([]T, lnN) with lnN := iohelp.ReadUint32(r) read just before
							if cid, ok := unparen(c.Args[1]).(*ast.Ident); ok && counts[cid.Name] != nil && counts[cid.Name].opDst == "" {
								cv := counts[cid.Name]
								cv.rawDst, cv.opDst = CanonOperand(lhs), dst
								a := Alloc{Operand: dst, Kind: "slice", Stream: true, Hint: true, Pos: pos, Bounded: cv.limChecked}
								if sl, ok := t.Underlying().(*types.Slice); ok {
									if st, ok := sl.Elem().Underlying().(*types.Struct); ok && st.NumFields() == 0 {
										a.ZeroSize = true
									}
									if cv.limChecked && cv.limPer > 0 {
										if m := l.minWire(sl.Elem(), 0); m >= 0 && cv.limPer > m {
											l.fail("overcheck", dst, pos, "the count check before make(%s) demands %d byte(s) per element of what is left of the enclosing record, but an element of this type can occupy as little as %d on the wire: a valid encoding with more elements than bytes that follow is rejected", dst, cv.limPer, m)
										}
									}
								}
								l.Allocs = append(l.Allocs, a)
								items = append(items, Item{Kind: KCount, Operand: dst, Pos: pos})
								continue
							}
						}
					}
				}
				if name, conv, ok := l.readStreamCall(rhs); ok {
					// lnN := / = iohelp.ReadUint32(r)   and   bodyLen := iohelp.ReadUint32(r)
					if id, isId := unparen(lhs).(*ast.Ident); isId && name == "ReadUint32" && conv == "" {
						if strings.HasPrefix(id.Name, "ln") {
							counts[id.Name] = &countVar{}
							continue
						}
						if top && x.Tok == token.DEFINE && len(items) == 0 {
							items = append(items, Item{Kind: KPrefix, Tag: -1, Pos: pos})
							l.Lim.PrefixVar = id.Name
							continue
						}
					}
					if name == "ReadString" {
						items = append(items, Item{Kind: KCount, Operand: dst, Pos: pos}, Item{Kind: KRaw, Operand: dst, Pos: pos})
						l.Allocs = append(l.Allocs, Alloc{Operand: dst, Kind: "string", Stream: true, Hint: true, Pos: pos})
						continue
					}
					if strings.HasPrefix(name, "Read") && !strings.HasSuffix(name, "Bytes") {
						stem := strings.TrimPrefix(name, "Read")
						if _, known := widthOfStem[stem]; known {
							it := Item{Kind: KScalar, Prim: stem, Operand: dst, Pos: pos}
							if conv != "" {
								if l.invalidType(rhs) {
									items = append(items, l.unknown(s))
									continue
								}
								if t := l.Info.TypeOf(rhs); t != nil {
									if _, named := t.(*types.Named); named {
										it.Enum = true
									}
								}
							}
							items = append(items, it)
							continue
						}
					}
				}
			}
			// (dst), err = MakeT(r)
			if len(x.Lhs) == 2 && len(x.Rhs) == 1 && l.isIdent(x.Lhs[1], "err") {
				if c, ok := unparen(x.Rhs[0]).(*ast.CallExpr); ok && len(c.Args) == 1 && l.isIdent(c.Args[0], "r") {
					fn := Canon(c.Fun)
					base := fn[strings.LastIndex(fn, ".")+1:]
					if strings.HasPrefix(strings.ToLower(base), "make") {
						dst := l.op(x.Lhs[0])
						if i+1 < len(stmts) && isErrReturn(stmts[i+1]) {
							i++
						} else {
							l.fail("errprop", dst, x.Pos(), "error of nested decode into %s is not returned immediately", dst)
						}
						items = append(items, Item{Kind: KRec, Operand: dst, Type: base[4:], Pos: x.Pos()})
						continue
					}
				}
			}
		case *ast.ExprStmt:
			// iohelp.ReadUint32(r) as a statement: the length prefix is taken off
			// the stream and dropped
			if name, _, ok := l.readStreamCall(x.X); ok && name == "ReadUint32" && top {
				items = append(items, Item{Kind: KPrefix, Tag: -1, Pos: s.Pos()})
				continue
			}
			// any other stream read as a statement: a value of that width is taken
			// off the stream and dropped
			if name, _, ok := l.readStreamCall(x.X); ok && strings.HasPrefix(name, "Read") {
				if _, known := widthOfStem[strings.TrimPrefix(name, "Read")]; known {
					items = append(items, Item{Kind: KScalar, Prim: strings.TrimPrefix(name, "Read"), Operand: "_", Pos: s.Pos()})
					continue
				}
			}
			// r.Read(dst)
			if recv, c, ok := methodCall(x.X, "Read"); ok && l.isIdent(recv, "r") && len(c.Args) == 1 {
				items = append(items, Item{Kind: KRaw, Operand: l.op(c.Args[0]), Pos: s.Pos()})
				continue
			}
			// r.Drain()
			if recv, c, ok := methodCall(x.X, "Drain"); ok && l.isIdent(recv, "r") && len(c.Args) == 0 {
				if !*limited {
					l.Lim.DrainBad = append(l.Lim.DrainBad, s.Pos())
				}
				continue
			}
		case *ast.DeferStmt:
			// defer func(base io.Reader) { r.Reader = base }(r.Reader): the argument
			// is evaluated here and now — the base reader if the limiter is not
			// installed yet, the limiter itself (a restore that restores nothing)
			// if it is
			if fl, ok := unparen(x.Call.Fun).(*ast.FuncLit); ok && top && len(x.Call.Args) == 1 && Canon(x.Call.Args[0]) == "r.Reader" &&
				len(fl.Type.Params.List) == 1 && len(fl.Type.Params.List[0].Names) == 1 && len(fl.Body.List) == 1 {
				if as, ok := fl.Body.List[0].(*ast.AssignStmt); ok && len(as.Lhs) == 1 && len(as.Rhs) == 1 && Canon(as.Lhs[0]) == "r.Reader" && Canon(as.Rhs[0]) == fl.Type.Params.List[0].Names[0].Name {
					if !*limited {
						l.Lim.DeferredRestore = true
					}
					continue
				}
			}
			// defer func() { r.Drain(); r.Reader = baseReader }()
			if fl, ok := unparen(x.Call.Fun).(*ast.FuncLit); ok && top && len(x.Call.Args) == 0 && *limited {
				drain, restore, other := false, false, false
				for _, ds := range fl.Body.List {
					switch y := ds.(type) {
					case *ast.ExprStmt:
						if recv, c, ok := methodCall(y.X, "Drain"); ok && l.isIdent(recv, "r") && len(c.Args) == 0 && !restore {
							drain = true
							continue
						}
					case *ast.AssignStmt:
						if len(y.Lhs) == 1 && len(y.Rhs) == 1 && y.Tok == token.ASSIGN && Canon(y.Lhs[0]) == "r.Reader" && Canon(y.Rhs[0]) == l.Lim.BaseVar && l.Lim.BaseVar != "" {
							restore = true
							continue
						}
					}
					other = true
				}
				if !other && (drain || restore) {
					l.Lim.DeferredDrain, l.Lim.DeferredRestore = drain, restore
					continue
				}
			}
		case *ast.RangeStmt:
			if id, ok := x.Key.(*ast.Ident); ok && x.Value == nil {
				l.depth++
				d := l.depth
				if keyShadows(x.X, id) {
					l.pushRename("\x00\x00shadowed", fmt.Sprintf("$v%d", d))
				} else {
					l.pushRename(CanonOperand(x.X)+"["+id.Name+"]", fmt.Sprintf("$v%d", d))
				}
				over := l.op(x.X)
				body := l.srBlock(x.Body.List, counts, limited, false)
				l.popRenames(1)
				l.depth--
				items = append(items, Item{Kind: KLoop, Operand: over, Body: body, Pos: s.Pos()})
				continue
			}
		case *ast.ForStmt:
			if x.Cond != nil && x.Init != nil {
				if b, ok := unparen(x.Cond).(*ast.BinaryExpr); ok && b.Op == token.LSS {
					if id, ok := unparen(b.Y).(*ast.Ident); ok {
						if cv := counts[id.Name]; cv != nil && cv.opDst != "" {
							l.depth++
							d := l.depth
							key := ""
							for _, st := range x.Body.List {
								if as, ok := st.(*ast.AssignStmt); ok && as.Tok == token.DEFINE && len(as.Lhs) >= 1 && len(as.Rhs) == 1 {
									if kid, ok := as.Lhs[0].(*ast.Ident); ok {
										if _, _, ok := l.iohelpCall(stripOneConv(as.Rhs[0])); ok {
											key = kid.Name
											break
										}
										if c, ok := unparen(as.Rhs[0]).(*ast.CallExpr); ok && len(c.Args) == 1 && l.isIdent(c.Args[0], "r") {
											key = kid.Name
											break
										}
									}
								}
							}
							n := 0
							if key != "" {
								l.pushRename(key, fmt.Sprintf("$k%d", d))
								l.pushRename(cv.rawDst+"["+key+"]", fmt.Sprintf("$v%d", d))
								n = 2
							}
							saved := *cv
							body := l.srBlock(x.Body.List, counts, limited, false)
							*cv = saved
							l.popRenames(n)
							l.depth--
							it := Item{Kind: KMapLoop, Operand: cv.opDst, Pos: s.Pos()}
							it.Key, it.Body = splitMapBody(body, d)
							items = append(items, it)
							continue
						}
					}
				}
			}
			if x.Cond == nil && x.Init == nil && x.Post == nil && len(x.Body.List) == 1 {
				if sw, ok := x.Body.List[0].(*ast.SwitchStmt); ok && sw.Init == nil && sw.Tag != nil {
					if name, _, ok := l.readStreamCall(sw.Tag); ok && name == "ReadByte" {
						it := Item{Kind: KSwitch, Pos: s.Pos()}
						for _, cc := range sw.Body.List {
							cl := cc.(*ast.CaseClause)
							lim := *limited
							body := l.srBlock(cl.Body, counts, &lim, false)
							c := Case{Default: cl.List == nil}
							if !c.Default {
								n, ok := intLit(cl.List[0])
								if !ok || len(cl.List) != 1 {
									body = append(body, l.unknown(cl))
								}
								c.Tag = n
							}
							if n := len(body); n > 0 && body[n-1].Kind == KUnknown && body[n-1].Text == "$return" {
								c.Returns = true
								body = body[:n-1]
							}
							c.Body = body
							it.Cases = append(it.Cases, c)
						}
						items = append(items, it)
						continue
					}
				}
			}
		case *ast.IfStmt:
			// if lr, ok := r.Reader.(*io.LimitedReader); ok && int64(lnN) > lr.N
			// { [r.Reader = base;] return <an error value> }: a count that
			// announces more elements than bytes are left of the enclosing record
			// (one byte per element) is refused before anything is allocated
			if cvName, ok := l.limitCountGuard(x, *limited); ok && counts[cvName] != nil && counts[cvName].opDst == "" {
				counts[cvName].limChecked, counts[cvName].limPer = true, 1
				continue
			}
			// if <test of the length prefix> { r.Reader = &io.LimitedReader{…} }: the
			// body is bounded for some prefixes only
			if top && l.Lim.PrefixVar != "" && !l.Lim.Installed && x.Init == nil && x.Else == nil && len(x.Body.List) == 1 {
				if as, ok := x.Body.List[0].(*ast.AssignStmt); ok && len(as.Lhs) == 1 && len(as.Rhs) == 1 && as.Tok == token.ASSIGN && Canon(as.Lhs[0]) == "r.Reader" {
					if _, _, _, isLim := l.limitedReaderLit(as.Rhs[0]); isLim || pendingLimit[Canon(as.Rhs[0])] {
						mentions := false
						ast.Inspect(x.Cond, func(n ast.Node) bool {
							if id, ok := n.(*ast.Ident); ok && id.Name == l.Lim.PrefixVar {
								mentions = true
							}
							return true
						})
						if mentions {
							l.fail("limiter", "", x.Pos(), "the body limiter is installed only when %s: for the other length prefixes the record's reads are not bounded by its declared length (a terminator or an unknown field is read from what follows the record)", Canon(x.Cond))
							// the paths diverge: treated as not installed
							continue
						}
					}
				}
			}
			// if <test of the length prefix> { return r.Err } between the prefix and
			// the limiter: a shortcut that leaves the announced body on the stream
			if top && l.Lim.PrefixVar != "" && !l.Lim.Installed && x.Init == nil && x.Else == nil && len(x.Body.List) == 1 {
				if ret, ok := x.Body.List[0].(*ast.ReturnStmt); ok && len(ret.Results) == 1 && Canon(ret.Results[0]) == "r.Err" {
					if b, ok := unparen(x.Cond).(*ast.BinaryExpr); ok && Canon(b.X) == l.Lim.PrefixVar {
						if n, isN := intLit(b.Y); isN {
							l.Returns = append(l.Returns, "r.Err")
							if !(b.Op == token.EQL && n == 0) {
								l.Lim.ShortReturns = append(l.Lim.ShortReturns, x.Pos())
							}
							continue
						}
					}
				}
			}
		case *ast.ReturnStmt:
			r := ""
			if len(x.Results) == 1 {
				r = Canon(x.Results[0])
			}
			l.Returns = append(l.Returns, r)
			switch r {
			case "r.Err":
				if *limited && !l.Lim.DeferredRestore {
					l.Lim.ReturnsBad = append(l.Lim.ReturnsBad, s.Pos())
				}
				if *limited && l.Lim.DeferredDrain {
					l.fail("return", "", s.Pos(), "DecodeBebop returns r.Err, which is read before the deferred Drain runs: a failure noticed only while skipping the rest of the record is not reported")
				}
			case "nil":
				if !(top && len(items) == 0) {
					l.fail("return", "", s.Pos(), "DecodeBebop returns nil instead of the reader's latched error")
				}
			default:
				l.fail("return", "", s.Pos(), "DecodeBebop returns %s instead of the reader's latched error", r)
			}
			if !top {
				items = append(items, Item{Kind: KUnknown, Text: "$return", Pos: s.Pos()})
			}
			continue
		}
		items = append(items, l.unknown(s))
	}
	return items
}

// dispatchAsLoop rewrites, at the top level of a decoder,
//
//	switch TAG { case k: BODY_k … }
//	TAIL
//
// into the shape the decoders of messages have and the readers above know:
//
//	for { switch TAG { case k: BODY_k; TAIL; [return] … default: TAIL; [return] } }
//
// A union holds one member, so its decoder needs no loop; falling out of the
// switch into a shared tail is the same control flow as every arm ending in
// that tail. Only the statement list changes; the nodes keep their positions.
func dispatchAsLoop(stmts []ast.Stmt, i int, isTag func(ast.Expr) bool) ([]ast.Stmt, bool) {
	sw, ok := stmts[i].(*ast.SwitchStmt)
	if !ok || sw.Init != nil || sw.Tag == nil || !isTag(sw.Tag) {
		return nil, false
	}
	tail := append([]ast.Stmt{}, stmts[i+1:]...)
	if n := len(tail); n == 0 || !isReturnStmt(tail[n-1]) {
		tail = append(tail, &ast.ReturnStmt{Return: sw.End()})
	}
	// an arm that already leaves the function keeps its own ending
	endsArm := func(b []ast.Stmt) bool { return len(b) > 0 && isReturnStmt(b[len(b)-1]) }
	nsw := &ast.SwitchStmt{Switch: sw.Switch, Tag: sw.Tag, Body: &ast.BlockStmt{Lbrace: sw.Body.Lbrace, Rbrace: sw.Body.Rbrace}}
	hasDefault := false
	for _, cc := range sw.Body.List {
		cl := cc.(*ast.CaseClause)
		body := append([]ast.Stmt{}, cl.Body...)
		if !endsArm(body) {
			body = append(body, tail...)
		}
		if cl.List == nil {
			hasDefault = true
		}
		nsw.Body.List = append(nsw.Body.List, &ast.CaseClause{Case: cl.Case, List: cl.List, Colon: cl.Colon, Body: body})
	}
	if !hasDefault {
		nsw.Body.List = append(nsw.Body.List, &ast.CaseClause{Case: sw.Body.Rbrace, Colon: sw.Body.Rbrace, Body: tail})
	}
	loop := &ast.ForStmt{For: sw.Switch, Body: &ast.BlockStmt{Lbrace: sw.Switch, List: []ast.Stmt{nsw}, Rbrace: sw.End()}}
	out := append(append([]ast.Stmt{}, stmts[:i]...), loop)
	return out, true
}

func isReturnStmt(s ast.Stmt) bool { _, ok := s.(*ast.ReturnStmt); return ok }

// labelledExitAsTail rewrites, at the top level of a decoder,
//
//	L: for { switch TAG { case k: BODY_k … default: break L } }
//	TAIL; return …
//
// into the form the readers know, every `break L` replaced by TAIL: leaving
// the labelled loop for a tail that ends in a return is the same control flow
// as ending the arm with that tail. Only statement lists change.
func labelledExitAsTail(stmts []ast.Stmt, i int) ([]ast.Stmt, bool) {
	ls, ok := stmts[i].(*ast.LabeledStmt)
	if !ok {
		return nil, false
	}
	loop, ok := ls.Stmt.(*ast.ForStmt)
	if !ok || loop.Cond != nil || loop.Init != nil || loop.Post != nil {
		return nil, false
	}
	tail := stmts[i+1:]
	if n := len(tail); n == 0 || !isReturnStmt(tail[n-1]) {
		return nil, false
	}
	for _, t := range tail {
		switch t.(type) {
		case *ast.ExprStmt, *ast.AssignStmt, *ast.ReturnStmt:
		default:
			return nil, false
		}
	}
	label := ls.Label.Name
	replaced := 0
	var rewrite func(list []ast.Stmt) []ast.Stmt
	rewrite = func(list []ast.Stmt) []ast.Stmt {
		var out []ast.Stmt
		for _, st := range list {
			switch x := st.(type) {
			case *ast.BranchStmt:
				if x.Tok == token.BREAK && x.Label != nil && x.Label.Name == label {
					out = append(out, tail...)
					replaced++
					continue
				}
			case *ast.SwitchStmt:
				nsw := &ast.SwitchStmt{Switch: x.Switch, Init: x.Init, Tag: x.Tag, Body: &ast.BlockStmt{Lbrace: x.Body.Lbrace, Rbrace: x.Body.Rbrace}}
				for _, cc := range x.Body.List {
					cl := cc.(*ast.CaseClause)
					nsw.Body.List = append(nsw.Body.List, &ast.CaseClause{Case: cl.Case, List: cl.List, Colon: cl.Colon, Body: rewrite(cl.Body)})
				}
				out = append(out, nsw)
				continue
			case *ast.IfStmt:
				if x.Else == nil {
					out = append(out, &ast.IfStmt{If: x.If, Init: x.Init, Cond: x.Cond, Body: &ast.BlockStmt{Lbrace: x.Body.Lbrace, List: rewrite(x.Body.List), Rbrace: x.Body.Rbrace}})
					continue
				}
			}
			out = append(out, st)
		}
		return out
	}
	body := rewrite(loop.Body.List)
	if replaced == 0 {
		return nil, false
	}
	nloop := &ast.ForStmt{For: loop.For, Body: &ast.BlockStmt{Lbrace: loop.Body.Lbrace, List: body, Rbrace: loop.Body.Rbrace}}
	return append(append([]ast.Stmt{}, stmts[:i]...), nloop), true
}

// keyShadows: the operand of a key-only range mentions a variable spelled
// like the key, which the key then shadows inside the body.
func keyShadows(x ast.Expr, key *ast.Ident) bool {
	shadows := false
	ast.Inspect(x, func(k ast.Node) bool {
		if kid, ok := k.(*ast.Ident); ok && kid.Name == key.Name {
			shadows = true
		}
		return true
	})
	return shadows
}

// prefixReject matches `if <prefix> REL <constant> { return <error> }`: the
// decoder refuses a record for the value of its length prefix alone. The
// format lets a newer writer add fields, so a body longer (or otherwise
// different in length) than this reader's schema can produce is not an error;
// the one accepted form is the stream decoder's `== 0` shortcut, handled by
// its own rule. Recorded as a failure of rule "prefixreject".
// limitCountGuard matches the statement described at its use in srBlock and
// returns the name of the count variable it tests.
func (l *Lifter) limitCountGuard(x *ast.IfStmt, limited bool) (string, bool) {
	if x.Else != nil || x.Init == nil {
		return "", false
	}
	as, ok := x.Init.(*ast.AssignStmt)
	if !ok || as.Tok != token.DEFINE || len(as.Lhs) != 2 || len(as.Rhs) != 1 {
		return "", false
	}
	ta, ok := unparen(as.Rhs[0]).(*ast.TypeAssertExpr)
	if !ok || Canon(ta.X) != "r.Reader" || Canon(ta.Type) != "*io.LimitedReader" {
		return "", false
	}
	lr, okv := Canon(as.Lhs[0]), Canon(as.Lhs[1])
	cond, ok := unparen(x.Cond).(*ast.BinaryExpr)
	if !ok || cond.Op != token.LAND || Canon(cond.X) != okv {
		return "", false
	}
	cmp, ok := unparen(cond.Y).(*ast.BinaryExpr)
	if !ok || cmp.Op != token.GTR || Canon(cmp.Y) != lr+".N" {
		return "", false
	}
	inner, conv := l.stripConv(cmp.X)
	id, ok := unparen(inner).(*ast.Ident)
	if !ok || conv != "int64" {
		return "", false
	}
	// the body: an optional restore of the base reader, then a return of an
	// error value that cannot be nil (a package-level error variable)
	body := x.Body.List
	if len(body) == 2 {
		ras, ok := body[0].(*ast.AssignStmt)
		if !ok || len(ras.Lhs) != 1 || len(ras.Rhs) != 1 || Canon(ras.Lhs[0]) != "r.Reader" || Canon(ras.Rhs[0]) != l.Lim.BaseVar || l.Lim.BaseVar == "" {
			return "", false
		}
		body = body[1:]
	} else if limited && !l.Lim.DeferredRestore {
		return "", false
	}
	if len(body) != 1 {
		return "", false
	}
	ret, ok := body[0].(*ast.ReturnStmt)
	if !ok || len(ret.Results) != 1 {
		return "", false
	}
	sel, ok := unparen(ret.Results[0]).(*ast.SelectorExpr)
	if !ok {
		return "", false
	}
	if v, ok := l.Info.Uses[sel.Sel].(*types.Var); !ok || v.Pkg() == nil || v.Parent() != v.Pkg().Scope() || !strings.HasPrefix(v.Name(), "Err") && v.Name() != "EOF" {
		return "", false
	}
	return id.Name, true
}

func (l *Lifter) prefixReject(s ast.Stmt, prefix string) bool {
	if prefix == "" {
		return false
	}
	ifs, ok := s.(*ast.IfStmt)
	if !ok || ifs.Init != nil || ifs.Else != nil || len(ifs.Body.List) != 1 {
		return false
	}
	ret, ok := ifs.Body.List[0].(*ast.ReturnStmt)
	if !ok || len(ret.Results) != 1 {
		return false
	}
	if id, isId := unparen(ret.Results[0]).(*ast.Ident); isId && id.Name == "nil" {
		return false
	}
	b, ok := unparen(ifs.Cond).(*ast.BinaryExpr)
	if !ok {
		return false
	}
	x, y := unparen(b.X), unparen(b.Y)
	isPrefix := func(e ast.Expr) bool {
		if c, isC := e.(*ast.CallExpr); isC && len(c.Args) == 1 {
			if tv, okT := l.Info.Types[c.Fun]; okT && tv.IsType() {
				e = unparen(c.Args[0])
			}
		}
		return l.isIdent(e, prefix)
	}
	var k ast.Expr
	switch {
	case isPrefix(x):
		k = y
	case isPrefix(y):
		k = x
	default:
		return false
	}
	if _, isConst := intLit(k); !isConst {
		return false
	}
	l.fail("prefixreject", "", s.Pos(), "the decoder returns %s when the length prefix is %s %s: a body of another length, as a newer schema version writes it, is refused instead of decoded up to the first unknown index", Canon(ret.Results[0]), b.Op, Canon(k))
	return true
}

// minWire: the least number of bytes a value of the (generated or basic) Go
// type occupies on the wire, per the format: fixed widths for scalars, 4 for
// the count of a string, array or map, 4+1 for an empty message (length and
// terminator) and for a union (length and discriminator), the sum over the
// fields for a struct. -1 when the type is not one the rule knows.
func (l *Lifter) minWire(t types.Type, depth int) int {
	if t == nil || depth > 6 {
		return -1
	}
	if nt, ok := t.(*types.Named); ok {
		if nt.Obj().Pkg() != nil && nt.Obj().Pkg().Path() == "time" && nt.Obj().Name() == "Time" {
			return 8
		}
		if l.RecClass != nil {
			switch l.RecClass(nt.Obj().Name()) {
			case "message", "union":
				return 5
			case "struct":
				st, ok := nt.Underlying().(*types.Struct)
				if !ok {
					return -1
				}
				sum := 0
				for i := 0; i < st.NumFields(); i++ {
					m := l.minWire(st.Field(i).Type(), depth+1)
					if m < 0 {
						return -1
					}
					sum += m
				}
				return sum
			}
		}
	}
	switch u := t.Underlying().(type) {
	case *types.Basic:
		switch u.Kind() {
		case types.Bool, types.Uint8, types.Int8:
			return 1
		case types.Uint16, types.Int16:
			return 2
		case types.Uint32, types.Int32, types.Float32:
			return 4
		case types.Uint64, types.Int64, types.Float64:
			return 8
		case types.String:
			return 4
		}
	case *types.Slice, *types.Map:
		return 4
	case *types.Array:
		if b, ok := u.Elem().Underlying().(*types.Basic); ok && b.Kind() == types.Uint8 && u.Len() == 16 {
			return 16
		}
	}
	return -1
}
