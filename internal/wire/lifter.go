package wire

import (
	"go/ast"
	"go/token"
	"go/types"
	"strings"
)

// Fail is a side-condition failure found while reading a method.
type Fail struct {
	Rule string // short rule tag, e.g. "cursor", "check", "alloc"
	Msg  string
	Pos  token.Pos
	Leaf string // operand the failure is about (alpha-renamed)
	Root string // the record member (bbp.F) being coded when it was found
}

// Alloc is an allocation sized by a count taken from the wire.
type Alloc struct {
	Operand  string
	Kind     string // "slice" | "map"
	Stream   bool
	Bounded  bool // a check relating the count to the remaining input precedes it
	Hint     bool // make() is given the count (maps may omit it)
	ZeroSize bool // elements occupy no memory (field-less struct)
	Pos      token.Pos
}

// Limiter describes the io.LimitedReader installed by a stream decoder.
type Limiter struct {
	Installed  bool
	PrefixVar  string
	BaseVar    string
	Extra      int // N = prefix + Extra
	OKShape    bool
	Pos        token.Pos
	ReturnsBad []token.Pos // returns of r.Err while the limiter is still installed
	DrainBad   []token.Pos // Drain while not limited
	// ShortReturns: returns taken after the length prefix was read and before
	// the body it announces was consumed (other than for a prefix of zero)
	ShortReturns []token.Pos
	// a `defer func() { r.Drain(); r.Reader = base }()` after the limiter was
	// installed: the restore (and the drain) run at every exit
	DeferredRestore bool
	DeferredDrain   bool
}

type Lifter struct {
	Info   *types.Info
	Fset   *token.FileSet
	Iohelp *types.Package
	Src    func(ast.Node) string

	renames [][2]string
	depth   int
	tmps    map[string]string // tmp var -> operand it copies

	Fails   []Fail
	Allocs  []Alloc
	Lim     Limiter
	Returns []string // rendered operands of return statements
	WireAdv int      // advances derived from a length prefix on the wire
	curRoot string
	// foldFixedSize: while lifting Size(), x.Size() of a struct whose wire size
	// is constant is that constant (the other side of the comparison, the bytes
	// EncodeBebop writes, is folded the same way by SizeOf)
	foldFixedSize bool
	brPrefixVar   string // byte decoder: the variable holding the record's length prefix
	// byte writer that fills the length prefix in last: `at := 4` leaves a
	// hole, iohelp.WriteUint32Bytes(buf, uint32(at-K)) directly before a
	// `return at` fills it with (what that return reports) - K
	// set by lin: a product involving a wire value was computed in a narrow type
	narrowMul token.Pos
	bwHole    bool
	bwPatched bool
	bwPatchK  []int
	Safe      bool // reader: checks are required
	// RecClass maps the Go name of a nested record type to "struct", "message"
	// or "union" ("" = unknown); supplied by the caller from the schema it built.
	RecClass func(goName string) string
	// RecFixed gives the wire size of a struct all of whose fields are
	// fixed-size (ok=false for any other record).
	RecFixed func(goName string) (size int, ok bool)
}

func (l *Lifter) fail(rule, leaf string, pos token.Pos, format string, a ...interface{}) {
	l.Fails = append(l.Fails, Fail{Rule: rule, Msg: sprintf(format, a...), Pos: pos, Leaf: leaf, Root: l.curRoot})
}

// ---- operands -------------------------------------------------------------

func isIdentChar(c byte) bool {
	return c == '_' || c == '$' || (c >= '0' && c <= '9') || (c >= 'a' && c <= 'z') || (c >= 'A' && c <= 'Z')
}

func replaceToken(s, from, to string) string {
	if from == "" {
		return s
	}
	var b strings.Builder
	i := 0
	for i < len(s) {
		j := strings.Index(s[i:], from)
		if j < 0 {
			break
		}
		j += i
		end := j + len(from)
		okBefore := j == 0 || !(isIdentChar(s[j-1]) || s[j-1] == '.')
		okAfter := end >= len(s) || !isIdentChar(s[end]) || !isIdentChar(from[len(from)-1])
		if okBefore && okAfter {
			b.WriteString(s[i:j])
			b.WriteString(to)
		} else {
			b.WriteString(s[i:end])
		}
		i = end
	}
	b.WriteString(s[i:])
	return b.String()
}

func (l *Lifter) rename(s string) string {
	for i := len(l.renames) - 1; i >= 0; i-- {
		if from := l.renames[i][0]; strings.HasPrefix(from, "\x00") {
			// an expression (xs[i]) standing for the loop's element
			s = strings.ReplaceAll(s, from[1:], l.renames[i][1])
			continue
		}
		s = replaceToken(s, l.renames[i][0], l.renames[i][1])
	}
	return s
}

func (l *Lifter) pushRename(from, to string) { l.renames = append(l.renames, [2]string{from, to}) }
func (l *Lifter) popRenames(n int)           { l.renames = l.renames[:len(l.renames)-n] }

// stripConv removes value-preserving conversions around an operand:
// []byte(x), string(x), and T(x) for a named or basic type T.
func (l *Lifter) stripConv(e ast.Expr) (ast.Expr, string) {
	e = unparen(e)
	if c, ok := e.(*ast.CallExpr); ok && len(c.Args) == 1 {
		if tv, ok := l.Info.Types[c.Fun]; ok && tv.IsType() {
			return unparen(c.Args[0]), Canon(c.Fun)
		}
	}
	return e, ""
}

// op renders an operand canonically with loop-bound names alpha-renamed.
func (l *Lifter) op(e ast.Expr) string {
	e = unparen(e)
	if id, ok := e.(*ast.Ident); ok {
		if t, ok := l.tmps[id.Name]; ok {
			return t
		}
	}
	r := l.rename(Canon(e))
	if strings.HasPrefix(r, "bbp.") || strings.HasPrefix(r, "*bbp.") {
		root := r
		if i := strings.IndexAny(root, "[ "); i >= 0 {
			root = root[:i]
		}
		l.curRoot = root
	}
	return r
}

// invalidType: the type checker could not give e a type (the emitted file has
// a type error that reaches it).
func (l *Lifter) invalidType(e ast.Expr) bool {
	t := l.Info.TypeOf(e)
	if t == nil {
		return true
	}
	b, ok := t.Underlying().(*types.Basic)
	return ok && b.Kind() == types.Invalid
}

func (l *Lifter) isIdent(e ast.Expr, name string) bool {
	id, ok := unparen(e).(*ast.Ident)
	return ok && id.Name == name
}

// iohelpCall resolves a call to a function of the real iohelp package.
func (l *Lifter) iohelpCall(e ast.Expr) (*ast.CallExpr, string, bool) {
	c, ok := unparen(e).(*ast.CallExpr)
	if !ok {
		return nil, "", false
	}
	sel, ok := unparen(c.Fun).(*ast.SelectorExpr)
	if !ok {
		return nil, "", false
	}
	fn, ok := l.Info.Uses[sel.Sel].(*types.Func)
	if !ok || fn.Pkg() == nil || l.Iohelp == nil || fn.Pkg().Path() != l.Iohelp.Path() {
		return nil, "", false
	}
	if sig, ok := fn.Type().(*types.Signature); ok && sig.Recv() != nil {
		return nil, "", false
	}
	return c, fn.Name(), true
}

// methodCall matches recv.Name(args) and returns recv.
func methodCall(e ast.Expr, name string) (ast.Expr, *ast.CallExpr, bool) {
	c, ok := unparen(e).(*ast.CallExpr)
	if !ok {
		return nil, nil, false
	}
	sel, ok := unparen(c.Fun).(*ast.SelectorExpr)
	if !ok || sel.Sel.Name != name {
		return nil, nil, false
	}
	return sel.X, c, true
}

var widthOfStem = map[string]int{
	"Bool": 1, "Byte": 1, "Uint8": 1, "Uint16": 2, "Int16": 2, "Uint32": 4, "Int32": 4,
	"Uint64": 8, "Int64": 8, "Float32": 4, "Float64": 8, "GUID": 16, "Date": 8,
}

// lin converts an int-valued emitted expression into a symbolic byte count.
func (l *Lifter) lin(e ast.Expr) (Lin, bool) {
	e = unparen(e)
	if n, ok := intLit(e); ok {
		return Const(n), true
	}
	switch x := e.(type) {
	case *ast.BinaryExpr:
		a, ok1 := l.lin(x.X)
		b, ok2 := l.lin(x.Y)
		if !ok1 || !ok2 {
			return Lin{}, false
		}
		switch x.Op {
		case token.ADD:
			return a.Add(b), true
		case token.SUB:
			return a.Sub(b), true
		case token.MUL:
			// a product with a value taken from the wire, computed in an integer
			// narrower than 64 bits, wraps for large values: as a bound it
			// proves nothing (noted for the caller, the form is still read)
			if !(a.IsConst() && b.IsConst()) {
				if t := l.Info.TypeOf(x); t != nil {
					if bt, ok := t.Underlying().(*types.Basic); ok {
						switch bt.Kind() {
						case types.Uint32, types.Int32, types.Uint16, types.Int16, types.Uint8, types.Int8:
							l.narrowMul = x.Pos()
						}
					}
				}
			}
			if a.IsConst() {
				return b.Scale(a.C), true
			}
			if b.IsConst() {
				return a.Scale(b.C), true
			}
		}
		return Lin{}, false
	case *ast.CallExpr:
		if id, ok := unparen(x.Fun).(*ast.Ident); ok && len(x.Args) == 1 {
			if id.Name == "len" {
				inner, _ := l.stripConv(x.Args[0])
				return Term("len("+l.op(inner)+")", 1), true
			}
			if tv, ok := l.Info.Types[x.Fun]; ok && tv.IsType() {
				return l.lin(x.Args[0])
			}
		}
		if recv, c, ok := methodCall(x, "Size"); ok && len(c.Args) == 0 {
			if l.foldFixedSize {
				if k, fixed := l.fixedOf(recv); fixed {
					return Const(k), true
				}
			}
			return Term("size("+l.op(recv)+")", 1), true
		}
		// the u32 length prefix found at the cursor
		if c, name, ok := l.iohelpCall(x); ok && name == "ReadUint32Bytes" && len(c.Args) == 1 {
			if off, ok := l.bufOffset(c.Args[0]); ok && off.IsZero() {
				return Term("wirelen(at)", 1), true
			}
		}
	case *ast.Ident:
		return Term("val("+x.Name+")", 1), true
	}
	return Lin{}, false
}

func sprintf(format string, a ...interface{}) string {
	if len(a) == 0 {
		return format
	}
	return fmtSprintf(format, a...)
}
