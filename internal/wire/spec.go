package wire

import "fmt"

// TypeClass is what the spec needs to know about a leaf type name.
type TypeClass struct {
	Fixed  string // iohelp stem when a fixed-width primitive ("Int32", "GUID", "Date")
	String bool
	Enum   string // stem of the enum's base integer
	Record bool
	// a record that is a struct of fixed-size fields: its wire size
	RecFixedOK bool
	RecFixed   int
}

// ShapeLike abstracts geneval.Shape (avoids an import cycle).
type ShapeLike interface {
	IsArray() (elem ShapeLike, ok bool)
	IsMap() (key string, val ShapeLike, ok bool)
	Name() string
}

// Expected is the wire signature the published Bebop format prescribes for a
// value of the given shape held in operand op. classify maps leaf names to
// their class. depth is the current loop nesting (0 at field level).
//
//	scalar  -> its fixed-width little-endian value (enum: its base integer)
//	string  -> u32 byte count + bytes
//	array   -> u32 element count + elements (byte arrays: count + raw bytes)
//	map     -> u32 entry count + (key, value)*
//	record  -> the record's own encoding
func Expected(s ShapeLike, op string, depth int, classify func(string) (TypeClass, bool)) ([]Item, error) {
	if elem, ok := s.IsArray(); ok {
		if _, isArr := elem.IsArray(); !isArr {
			if _, _, isMap := elem.IsMap(); !isMap {
				if elem.Name() == "byte" || elem.Name() == "uint8" {
					return []Item{{Kind: KCount, Operand: op}, {Kind: KRaw, Operand: op}}, nil
				}
			}
		}
		body, err := Expected(elem, fmt.Sprintf("$v%d", depth+1), depth+1, classify)
		if err != nil {
			return nil, err
		}
		return []Item{{Kind: KCount, Operand: op}, {Kind: KLoop, Operand: op, Body: body}}, nil
	}
	if key, val, ok := s.IsMap(); ok {
		kc, known := classify(key)
		if !known {
			return nil, fmt.Errorf("unknown key type %s", key)
		}
		var k []Item
		kop := fmt.Sprintf("$k%d", depth+1)
		switch {
		case kc.Fixed != "":
			k = []Item{{Kind: KScalar, Prim: kc.Fixed, Operand: kop}}
		case kc.String:
			k = []Item{{Kind: KCount, Operand: kop}, {Kind: KRaw, Operand: kop}}
		default:
			return nil, fmt.Errorf("map key %s is not a primitive", key)
		}
		body, err := Expected(val, fmt.Sprintf("$v%d", depth+1), depth+1, classify)
		if err != nil {
			return nil, err
		}
		return []Item{{Kind: KCount, Operand: op}, {Kind: KMapLoop, Operand: op, Key: k, Body: body}}, nil
	}
	c, known := classify(s.Name())
	if !known {
		return nil, fmt.Errorf("unknown type %s", s.Name())
	}
	switch {
	case c.Fixed != "":
		return []Item{{Kind: KScalar, Prim: c.Fixed, Operand: op}}, nil
	case c.String:
		return []Item{{Kind: KCount, Operand: op}, {Kind: KRaw, Operand: op}}, nil
	case c.Enum != "":
		return []Item{{Kind: KScalar, Prim: c.Enum, Operand: op, Enum: true}}, nil
	case c.Record:
		return []Item{{Kind: KRec, Operand: op, FixedOK: c.RecFixedOK, Fixed: c.RecFixed}}, nil
	}
	return nil, fmt.Errorf("unclassified type %s", s.Name())
}
