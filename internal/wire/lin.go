// Package wire is engine E4 of DESIGN.md: it reads the typed AST of emitted
// codec methods into wire-op signatures, tracks the byte cursor symbolically,
// and compares the result with an independent spec table.
package wire

import (
	"fmt"
	"go/ast"
	"go/token"
	"sort"
	"strconv"
	"strings"
)

// Lin is a linear symbolic byte count: C + sum coef*term, terms being
// "len(x)" or "size(x)" over canonical operand strings.
type Lin struct {
	C int
	T map[string]int
}

func Const(c int) Lin { return Lin{C: c} }
func Term(t string, k int) Lin {
	return Lin{T: map[string]int{t: k}}
}

func (a Lin) Add(b Lin) Lin {
	out := Lin{C: a.C + b.C, T: map[string]int{}}
	for k, v := range a.T {
		out.T[k] += v
	}
	for k, v := range b.T {
		out.T[k] += v
	}
	for k, v := range out.T {
		if v == 0 {
			delete(out.T, k)
		}
	}
	return out
}

func (a Lin) Neg() Lin {
	out := Lin{C: -a.C, T: map[string]int{}}
	for k, v := range a.T {
		out.T[k] = -v
	}
	return out
}

func (a Lin) Sub(b Lin) Lin { return a.Add(b.Neg()) }

func (a Lin) Scale(k int) Lin {
	out := Lin{C: a.C * k, T: map[string]int{}}
	for t, v := range a.T {
		if v*k != 0 {
			out.T[t] = v * k
		}
	}
	return out
}

func (a Lin) IsConst() bool { return len(a.T) == 0 }
func (a Lin) IsZero() bool  { return a.C == 0 && len(a.T) == 0 }
func (a Lin) Eq(b Lin) bool { return a.Sub(b).IsZero() }

// NonNeg reports whether the value is provably >= 0 given that every term is
// a non-negative quantity.
func (a Lin) NonNeg() bool {
	if a.C < 0 {
		return false
	}
	for _, v := range a.T {
		if v < 0 {
			return false
		}
	}
	return true
}

func (a Lin) String() string {
	var parts []string
	keys := make([]string, 0, len(a.T))
	for k := range a.T {
		keys = append(keys, k)
	}
	sort.Strings(keys)
	for _, k := range keys {
		if a.T[k] == 1 {
			parts = append(parts, k)
		} else {
			parts = append(parts, fmt.Sprintf("%d*%s", a.T[k], k))
		}
	}
	if a.C != 0 || len(parts) == 0 {
		parts = append(parts, strconv.Itoa(a.C))
	}
	return strings.Join(parts, "+")
}

// Subst renames operands inside term keys.
func (a Lin) Subst(f func(string) string) Lin {
	out := Lin{C: a.C, T: map[string]int{}}
	for k, v := range a.T {
		i := strings.Index(k, "(")
		nk := k[:i+1] + f(k[i+1:len(k)-1]) + ")"
		out.T[nk] += v
	}
	return out
}

// Canon renders an expression without parentheses noise so that the operand
// spellings of the six emitters become comparable: ((bbp.M)[i1])[k2] ->
// bbp.M[i1][k2], (*bbp.F) -> *bbp.F.
func Canon(e ast.Expr) string {
	switch x := e.(type) {
	case nil:
		return ""
	case *ast.ParenExpr:
		return Canon(x.X)
	case *ast.Ident:
		return x.Name
	case *ast.BasicLit:
		return x.Value
	case *ast.SelectorExpr:
		return canonOperand(x.X) + "." + x.Sel.Name
	case *ast.IndexExpr:
		return canonOperand(x.X) + "[" + Canon(x.Index) + "]"
	case *ast.StarExpr:
		return "*" + canonOperand(x.X)
	case *ast.UnaryExpr:
		return x.Op.String() + canonOperand(x.X)
	case *ast.BinaryExpr:
		return Canon(x.X) + " " + x.Op.String() + " " + Canon(x.Y)
	case *ast.CallExpr:
		var args []string
		for _, a := range x.Args {
			args = append(args, Canon(a))
		}
		return Canon(x.Fun) + "(" + strings.Join(args, ", ") + ")"
	case *ast.SliceExpr:
		return canonOperand(x.X) + "[" + Canon(x.Low) + ":" + Canon(x.High) + "]"
	case *ast.ArrayType:
		return "[" + Canon(x.Len) + "]" + Canon(x.Elt)
	case *ast.MapType:
		return "map[" + Canon(x.Key) + "]" + Canon(x.Value)
	case *ast.CompositeLit:
		var el []string
		for _, a := range x.Elts {
			el = append(el, Canon(a))
		}
		return Canon(x.Type) + "{" + strings.Join(el, ", ") + "}"
	case *ast.KeyValueExpr:
		return Canon(x.Key) + ": " + Canon(x.Value)
	}
	return fmt.Sprintf("<%T>", e)
}

// canonOperand keeps the one pair of parentheses that matters: a dereference
// that is then selected or indexed, (*p).f / (*p)[i].
// CanonOperand is Canon for an expression about to be indexed or selected.
func CanonOperand(e ast.Expr) string { return canonOperand(e) }

func canonOperand(e ast.Expr) string {
	inner := e
	for {
		p, ok := inner.(*ast.ParenExpr)
		if !ok {
			break
		}
		inner = p.X
	}
	switch inner.(type) {
	case *ast.StarExpr, *ast.UnaryExpr, *ast.BinaryExpr:
		return "(" + Canon(inner) + ")"
	}
	return Canon(inner)
}

func unparen(e ast.Expr) ast.Expr {
	for {
		p, ok := e.(*ast.ParenExpr)
		if !ok {
			return e
		}
		e = p.X
	}
}

func intLit(e ast.Expr) (int, bool) {
	e = unparen(e)
	if b, ok := e.(*ast.BasicLit); ok && (b.Kind == token.INT || b.Kind == token.CHAR) {
		n, err := strconv.ParseInt(b.Value, 0, 64)
		if err == nil {
			return int(n), true
		}
	}
	return 0, false
}
