package wire

import (
	"fmt"
	"go/ast"
	"go/token"
	"go/types"
	"strings"
)

var fmtSprintf = fmt.Sprintf

// cursor is the symbolic state of a byte-slice writer: adv is how far `at`
// has moved since the segment started, front how many bytes were written.
type cursor struct {
	adv   Lin
	front Lin
}

// classifyPut turns the value argument of a Write<Stem>[Bytes] call into an item.
func (l *Lifter) classifyPut(stem string, val ast.Expr, pos token.Pos) Item {
	inner, conv := l.stripConv(val)
	if stem == "Uint32" && conv == "uint32" {
		// uint32(len(x)) or uint32(bbp.Size()-K)
		if c, ok := inner.(*ast.CallExpr); ok {
			if id, ok := unparen(c.Fun).(*ast.Ident); ok && id.Name == "len" && len(c.Args) == 1 {
				x, _ := l.stripConv(c.Args[0])
				return Item{Kind: KCount, Operand: l.op(x), Pos: pos}
			}
		}
		if b, ok := inner.(*ast.BinaryExpr); ok && b.Op == token.SUB {
			if recv, c, ok := methodCall(b.X, "Size"); ok && len(c.Args) == 0 && l.isIdent(recv, "bbp") {
				if k, ok := intLit(b.Y); ok {
					return Item{Kind: KPrefix, Tag: k, Pos: pos}
				}
			}
		}
		if recv, c, ok := methodCall(inner, "Size"); ok && len(c.Args) == 0 && l.isIdent(recv, "bbp") {
			return Item{Kind: KPrefix, Tag: 0, Pos: pos}
		}
	}
	it := Item{Kind: KScalar, Prim: stem, Pos: pos}
	if conv != "" {
		if l.invalidType(inner) {
			// the emitted file does not type-check here (C12 reports it): whether
			// the operand is an enum cannot be told
			return Item{Kind: KUnknown, Text: "conversion of a value whose type does not check: " + Canon(val), Pos: pos}
		}
		// an integer conversion of an enum-typed operand
		if t := l.Info.TypeOf(inner); t != nil {
			if _, named := t.(*types.Named); named {
				if b, ok := t.Underlying().(*types.Basic); ok && b.Info()&types.IsInteger != 0 {
					it.Enum = true
					it.Operand = l.op(inner)
					return it
				}
			}
		}
		it.Operand = l.op(val)
		return it
	}
	it.Operand = l.op(inner)
	return it
}

// dateAlt recognises   if (x).IsZero() { put(0) } else { put((x).UnixNano()/100) }
// and returns the operand x. put extracts the value argument of one branch.
func (l *Lifter) dateAlt(s *ast.IfStmt, put func(ast.Stmt) (string, ast.Expr, bool)) (Item, bool) {
	if s.Init != nil {
		return Item{}, false
	}
	// if X.IsZero() { put 0 } else { put f(X) }   — or the test negated, or the
	// zero arm missing. Whatever f is, this is the write of a date: f is part of
	// the signature unless it is the format's (X.UnixNano() / 100, 100ns ticks).
	cond := unparen(s.Cond)
	negated := false
	if u, ok := cond.(*ast.UnaryExpr); ok && u.Op == token.NOT {
		negated = true
		cond = unparen(u.X)
	}
	zeroTest := ""
	recv, c, ok := methodCall(cond, "IsZero")
	if !ok || len(c.Args) != 0 {
		// X == time.Time{} (or != …): a test of the zero instant *and* a nil
		// location — a zero time that carries a location is not equal to it
		be, isB := cond.(*ast.BinaryExpr)
		if !isB || (be.Op != token.EQL && be.Op != token.NEQ) {
			return Item{}, false
		}
		x, y := unparen(be.X), unparen(be.Y)
		if cl, isLit := x.(*ast.CompositeLit); isLit && len(cl.Elts) == 0 && Canon(cl.Type) == "time.Time" {
			x, y = y, x
		}
		cl, isLit := y.(*ast.CompositeLit)
		if !isLit || len(cl.Elts) != 0 || Canon(cl.Type) != "time.Time" {
			return Item{}, false
		}
		recv = x
		if be.Op == token.NEQ {
			negated = !negated
		}
		zeroTest = "zero time recognised by == time.Time{}, which a zero time with a location is not"
	}
	var zeroArm, valueArm []ast.Stmt
	if s.Else != nil {
		eb, ok := s.Else.(*ast.BlockStmt)
		if !ok {
			return Item{}, false
		}
		zeroArm, valueArm = s.Body.List, eb.List
		if negated {
			zeroArm, valueArm = valueArm, zeroArm
		}
	} else {
		if !negated {
			return Item{}, false
		}
		valueArm = s.Body.List
	}
	if len(valueArm) != 1 || len(zeroArm) > 1 {
		return Item{}, false
	}
	stemB, vb, okB := put(valueArm[0])
	if !okB || stemB != "Int64" {
		return Item{}, false
	}
	// the value must be computed from the same time value the test looks at
	mentions := false
	ast.Inspect(vb, func(n ast.Node) bool {
		if e, ok := n.(ast.Expr); ok && l.op(e) == l.op(recv) {
			mentions = true
		}
		return true
	})
	if !mentions {
		return Item{}, false
	}
	prim := "Date"
	if len(zeroArm) == 1 {
		stemA, va, okA := put(zeroArm[0])
		if !okA || stemA != "Int64" {
			return Item{}, false
		}
		if n, ok := intLit(va); !ok || n != 0 {
			prim = "Date<zero time written as " + Canon(va) + ">"
		}
	} else {
		prim = "Date<nothing written for the zero time>"
	}
	std := false
	if be, ok := unparen(vb).(*ast.BinaryExpr); ok && be.Op == token.QUO {
		if n, ok := intLit(be.Y); ok && n == 100 {
			if r2, c2, ok := methodCall(be.X, "UnixNano"); ok && len(c2.Args) == 0 && l.op(r2) == l.op(recv) {
				std = true
			}
		}
	}
	if !std && prim == "Date" {
		conv := strings.ReplaceAll(Canon(vb), Canon(recv), "t")
		prim = "Date<ticks = " + conv + ">"
	}
	if zeroTest != "" && prim == "Date" {
		prim = "Date<" + zeroTest + ">"
	}
	return Item{Kind: KScalar, Prim: prim, Operand: l.op(recv), Pos: s.Pos()}, true
}

// dateBlock recognises the same write with the value hoisted into a local:
//
//	{ var t int64; if !(x).IsZero() { t = f(x) }; put(t) }
//
// — 0 for the zero time, f(x) otherwise.
func (l *Lifter) dateBlock(b *ast.BlockStmt, put func(ast.Stmt) (string, ast.Expr, bool)) (Item, bool) {
	if len(b.List) != 3 {
		return Item{}, false
	}
	ds, ok := b.List[0].(*ast.DeclStmt)
	if !ok {
		return Item{}, false
	}
	gd, ok := ds.Decl.(*ast.GenDecl)
	if !ok || gd.Tok != token.VAR || len(gd.Specs) != 1 {
		return Item{}, false
	}
	vs, ok := gd.Specs[0].(*ast.ValueSpec)
	if !ok || len(vs.Names) != 1 || len(vs.Values) != 0 || vs.Type == nil || Canon(vs.Type) != "int64" {
		return Item{}, false
	}
	tname := vs.Names[0].Name
	ifs, ok := b.List[1].(*ast.IfStmt)
	if !ok || ifs.Init != nil || ifs.Else != nil || len(ifs.Body.List) != 1 {
		return Item{}, false
	}
	u, ok := unparen(ifs.Cond).(*ast.UnaryExpr)
	if !ok || u.Op != token.NOT {
		return Item{}, false
	}
	recv, c, ok := methodCall(unparen(u.X), "IsZero")
	if !ok || len(c.Args) != 0 {
		return Item{}, false
	}
	as, ok := ifs.Body.List[0].(*ast.AssignStmt)
	if !ok || as.Tok != token.ASSIGN || len(as.Lhs) != 1 || len(as.Rhs) != 1 || !l.isIdent(as.Lhs[0], tname) {
		return Item{}, false
	}
	stem, val, ok := put(b.List[2])
	if !ok || stem != "Int64" || !l.isIdent(val, tname) {
		return Item{}, false
	}
	vb := as.Rhs[0]
	mentions := false
	ast.Inspect(vb, func(n ast.Node) bool {
		if e, ok := n.(ast.Expr); ok && l.op(e) == l.op(recv) {
			mentions = true
		}
		return true
	})
	if !mentions {
		return Item{}, false
	}
	prim := "Date"
	std := false
	if be, ok := unparen(vb).(*ast.BinaryExpr); ok && be.Op == token.QUO {
		if n, ok := intLit(be.Y); ok && n == 100 {
			if r2, c2, ok := methodCall(be.X, "UnixNano"); ok && len(c2.Args) == 0 && l.op(r2) == l.op(recv) {
				std = true
			}
		}
	}
	if !std {
		prim = "Date<ticks = " + strings.ReplaceAll(Canon(vb), Canon(recv), "t") + ">"
	}
	return Item{Kind: KScalar, Prim: prim, Operand: l.op(recv), Pos: b.Pos()}, true
}

func (l *Lifter) unknown(s ast.Node) Item {
	return Item{Kind: KUnknown, Text: strings.Join(strings.Fields(l.Src(s)), " "), Pos: s.Pos()}
}

// bufOffset matches buf[at:], buf[at+4:] and returns the offset from `at`.
func (l *Lifter) bufOffset(e ast.Expr) (Lin, bool) {
	se, ok := unparen(e).(*ast.SliceExpr)
	if !ok || !l.isIdent(se.X, "buf") || se.High != nil || se.Low == nil {
		return Lin{}, false
	}
	return l.atRel(se.Low)
}

// atRel matches `at` or `at + e` and returns e.
func (l *Lifter) atRel(e ast.Expr) (Lin, bool) {
	e = unparen(e)
	if l.isIdent(e, "at") {
		return Const(0), true
	}
	if b, ok := e.(*ast.BinaryExpr); ok && b.Op == token.ADD {
		if base, ok := l.atRel(b.X); ok {
			if r, ok := l.lin(b.Y); ok {
				return base.Add(r), true
			}
		}
	}
	return Lin{}, false
}

// advStmt matches `at += e`, `at++`, `at = at + e`.
func (l *Lifter) accStmt(s ast.Stmt, name string) (Lin, bool) {
	switch x := s.(type) {
	case *ast.IncDecStmt:
		if l.isIdent(x.X, name) && x.Tok == token.INC {
			return Const(1), true
		}
	case *ast.AssignStmt:
		if len(x.Lhs) == 1 && len(x.Rhs) == 1 && l.isIdent(x.Lhs[0], name) {
			if x.Tok == token.ADD_ASSIGN {
				return l.lin(x.Rhs[0])
			}
			if x.Tok == token.ASSIGN {
				if b, ok := unparen(x.Rhs[0]).(*ast.BinaryExpr); ok && b.Op == token.ADD && l.isIdent(b.X, name) {
					return l.lin(b.Y)
				}
			}
		}
	}
	return Lin{}, false
}

// tmpBlock matches { tmp := (x); <name> += tmp.Size() } and returns size(x).
func (l *Lifter) tmpBlock(s ast.Stmt, name string) (Lin, bool) {
	b, ok := s.(*ast.BlockStmt)
	if !ok || len(b.List) != 2 {
		return Lin{}, false
	}
	as, ok := b.List[0].(*ast.AssignStmt)
	if !ok || as.Tok != token.DEFINE || len(as.Lhs) != 1 || len(as.Rhs) != 1 {
		return Lin{}, false
	}
	id, ok := as.Lhs[0].(*ast.Ident)
	if !ok {
		return Lin{}, false
	}
	if l.tmps == nil {
		l.tmps = map[string]string{}
	}
	old, had := l.tmps[id.Name]
	l.tmps[id.Name] = l.op(as.Rhs[0])
	defer func() {
		if had {
			l.tmps[id.Name] = old
		} else {
			delete(l.tmps, id.Name)
		}
	}()
	return l.accStmt(b.List[1], name)
}

func (l *Lifter) writeWidth(it Item) Lin {
	switch it.Kind {
	case KScalar:
		return Const(widthOfStem[baseStem(it.Prim)])
	case KCount, KPrefix:
		return Const(4)
	case KConstByte:
		return Const(1)
	case KRaw:
		return Term("len("+it.Operand+")", 1)
	case KRec:
		return Term("size("+it.Operand+")", 1)
	}
	return Const(0)
}

// rangeVars pushes alpha-renames for the variables of a writer's range loop.
func (l *Lifter) enterRange(s *ast.RangeStmt) (n int) {
	d := l.depth + 1
	if id, ok := s.Key.(*ast.Ident); ok && id.Name != "_" {
		if isMapType(l.Info.TypeOf(s.X)) {
			l.pushRename(id.Name, fmt.Sprintf("$k%d", d))
			n++
		} else if s.Value == nil {
			// for i := range xs { … xs[i] … }: the element through its index —
			// unless the key shadows a variable xs itself is written with
			// (for i := range m[i]): inside the body m[i][i] is then m[j][j],
			// not the element, and must not be read as one
			shadows := false
			ast.Inspect(s.X, func(k ast.Node) bool {
				if kid, ok := k.(*ast.Ident); ok && kid.Name == id.Name {
					shadows = true
				}
				return true
			})
			if !shadows {
				l.pushRename("\x00"+Canon(&ast.IndexExpr{X: s.X, Index: id}), fmt.Sprintf("$v%d", d))
				n++
			}
		}
	}
	if id, ok := s.Value.(*ast.Ident); ok && id.Name != "_" {
		l.pushRename(id.Name, fmt.Sprintf("$v%d", d))
		n++
	}
	return n
}

func isMapType(t types.Type) bool {
	if t == nil {
		return false
	}
	_, ok := t.Underlying().(*types.Map)
	return ok
}

// splitMapBody separates a map loop body into key items and value items:
// the key is everything that mentions only $k<d>.
func splitMapBody(items []Item, d int) (key, val []Item) {
	k := fmt.Sprintf("$k%d", d)
	i := 0
	for i < len(items) && mentionsOnly(items[i], k) {
		i++
	}
	return items[:i], items[i:]
}

func mentionsOnly(it Item, name string) bool {
	switch it.Kind {
	case KScalar, KCount, KRaw, KRec:
		return it.Operand == name
	}
	return false
}

// ---- MarshalBebopTo -------------------------------------------------------

// LiftBW reads a MarshalBebopTo body. It reports cursor-discipline failures
// (rule "cursor") and returns the wire signature.
func (l *Lifter) LiftBW(fd *ast.FuncDecl) []Item {
	cur := &cursor{}
	l.bwHole, l.bwPatched, l.bwPatchK = false, false, nil
	items := l.bwBlock(fd.Body.List, cur, true)
	if l.bwHole {
		// the prefix every return filled in: (bytes reported) - K, which is
		// Size()-K exactly when the method returns Size() (C02/R3)
		k, same := -1, len(l.bwPatchK) > 0
		for _, x := range l.bwPatchK {
			if k >= 0 && x != k {
				same = false
			}
			k = x
		}
		if !same {
			l.fail("cursor", "", fd.Pos(), "the length prefix is filled in with differing or no values (%v)", l.bwPatchK)
			k = -1
		}
		items = append([]Item{{Kind: KPrefix, Tag: k, Pos: fd.Body.Lbrace}}, items...)
	}
	return items
}

// bwBackPatch matches iohelp.WriteUint32Bytes(buf, uint32(at-K)).
func (l *Lifter) bwBackPatch(s ast.Stmt) (int, bool) {
	es, ok := s.(*ast.ExprStmt)
	if !ok {
		return 0, false
	}
	c, name, isIo := l.iohelpCall(es.X)
	if !isIo || name != "WriteUint32Bytes" || len(c.Args) != 2 || !l.isIdent(c.Args[0], "buf") {
		return 0, false
	}
	inner, conv := l.stripConv(c.Args[1])
	b, ok := inner.(*ast.BinaryExpr)
	if conv != "uint32" || !ok || b.Op != token.SUB || !l.isIdent(b.X, "at") {
		return 0, false
	}
	return intLit(b.Y)
}

func (l *Lifter) isReturnAt(s ast.Stmt) bool {
	r, ok := s.(*ast.ReturnStmt)
	return ok && len(r.Results) == 1 && l.isIdent(r.Results[0], "at")
}

func (l *Lifter) bwClosed(cur *cursor, pos token.Pos, what string) {
	if !cur.adv.Eq(cur.front) {
		l.fail("cursor", "", pos, "%s: cursor advanced by %s but %s bytes were written", what, cur.adv, cur.front)
	}
}

func (l *Lifter) bwWrite(cur *cursor, off Lin, it Item) {
	start := cur.adv.Add(off)
	if !start.Eq(cur.front) {
		l.fail("cursor", it.Operand, it.Pos, "%s is written at offset %s from the record start of this segment but the previous write ended at %s (gap or overlap)", it, start, cur.front)
	}
	cur.front = start.Add(l.writeWidth(it))
}

func (l *Lifter) bwPutStmt(s ast.Stmt) (stem string, val ast.Expr, off Lin, ok bool) {
	es, isExpr := s.(*ast.ExprStmt)
	if !isExpr {
		return
	}
	c, name, isIo := l.iohelpCall(es.X)
	if !isIo || !strings.HasPrefix(name, "Write") || !strings.HasSuffix(name, "Bytes") || len(c.Args) != 2 {
		return
	}
	off, ok = l.bufOffset(c.Args[0])
	if !ok {
		return
	}
	return strings.TrimSuffix(strings.TrimPrefix(name, "Write"), "Bytes"), c.Args[1], off, true
}

func (l *Lifter) bwBlock(stmts []ast.Stmt, cur *cursor, top bool) []Item {
	var items []Item
	for i, s := range stmts {
		// at := 0
		if as, ok := s.(*ast.AssignStmt); ok && as.Tok == token.DEFINE && len(as.Lhs) == 1 && l.isIdent(as.Lhs[0], "at") {
			if n, ok := intLit(as.Rhs[0]); ok && n == 0 && top {
				continue
			}
			// at := 4: the prefix is filled in last
			if n, ok := intLit(as.Rhs[0]); ok && n == 4 && top && !l.bwHole && cur.adv.IsZero() && cur.front.IsZero() {
				l.bwHole = true
				cur.adv, cur.front = Const(4), Const(4)
				continue
			}
		}
		if k, ok := l.bwBackPatch(s); ok && l.bwHole && i+1 < len(stmts) && l.isReturnAt(stmts[i+1]) {
			l.bwPatched = true
			l.bwPatchK = append(l.bwPatchK, k)
			continue
		}
		if stem, val, off, ok := l.bwPutStmt(s); ok {
			if _, known := widthOfStem[stem]; !known {
				items = append(items, l.unknown(s))
				continue
			}
			it := l.classifyPut(stem, val, s.Pos())
			l.bwWrite(cur, off, it)
			items = append(items, it)
			continue
		}
		if d, ok := l.accStmt(s, "at"); ok {
			// at += (x).MarshalBebopTo(buf[at:]) : write + advance by the callee's return
			cur.adv = cur.adv.Add(d)
			continue
		}
		if d, ok := l.tmpBlock(s, "at"); ok {
			cur.adv = cur.adv.Add(d)
			continue
		}
		switch x := s.(type) {
		case *ast.EmptyStmt:
			continue
		case *ast.AssignStmt:
			// buf[at] = c
			if len(x.Lhs) == 1 && len(x.Rhs) == 1 && x.Tok == token.ASSIGN {
				if ix, ok := unparen(x.Lhs[0]).(*ast.IndexExpr); ok && l.isIdent(ix.X, "buf") {
					if off, ok := l.atRel(ix.Index); ok {
						if n, ok := intLit(x.Rhs[0]); ok {
							it := Item{Kind: KConstByte, Tag: n, Pos: s.Pos()}
							l.bwWrite(cur, off, it)
							items = append(items, it)
							continue
						}
					}
				}
				// at += via return value:  at += (x).MarshalBebopTo(buf[at:]) handled below
			}
			if len(x.Lhs) == 1 && len(x.Rhs) == 1 && x.Tok == token.ADD_ASSIGN && l.isIdent(x.Lhs[0], "at") {
				if recv, c, ok := methodCall(x.Rhs[0], "MarshalBebopTo"); ok && len(c.Args) == 1 {
					if off, ok := l.bufOffset(c.Args[0]); ok {
						it := Item{Kind: KRec, Operand: l.op(recv), Pos: s.Pos()}
						it.Fixed, it.FixedOK = l.fixedOf(recv)
						l.bwWrite(cur, off, it)
						// advancing by the callee's return value is advancing by its Size()
						// exactly when MarshalBebopTo returns Size() (C02/R3 on every kind).
						cur.adv = cur.adv.Add(Term("size("+it.Operand+")", 1))
						l.fail("retdep", it.Operand, s.Pos(), "cursor advance relies on the return value of %s.MarshalBebopTo", it.Operand)
						items = append(items, it)
						continue
					}
				}
			}
		case *ast.ExprStmt:
			// copy(buf[lo:hi], src)
			if c, ok := unparen(x.X).(*ast.CallExpr); ok {
				if id, ok := unparen(c.Fun).(*ast.Ident); ok && id.Name == "copy" && len(c.Args) == 2 {
					if se, ok := unparen(c.Args[0]).(*ast.SliceExpr); ok && l.isIdent(se.X, "buf") && se.Low != nil && se.High != nil {
						lo, ok1 := l.atRel(se.Low)
						hi, ok2 := l.atRel(se.High)
						src, _ := l.stripConv(c.Args[1])
						if ok1 && ok2 {
							it := Item{Kind: KRaw, Operand: l.op(src), Pos: s.Pos()}
							if !hi.Sub(lo).Eq(l.writeWidth(it)) {
								l.fail("cursor", it.Operand, s.Pos(), "copy destination is %s bytes wide but the source is %s", hi.Sub(lo), l.writeWidth(it))
							}
							l.bwWrite(cur, lo, it)
							items = append(items, it)
							continue
						}
					}
				}
			}
			// (x).MarshalBebopTo(buf[at:])
			if recv, c, ok := methodCall(x.X, "MarshalBebopTo"); ok && len(c.Args) == 1 {
				if off, ok := l.bufOffset(c.Args[0]); ok {
					it := Item{Kind: KRec, Operand: l.op(recv), Pos: s.Pos()}
					it.Fixed, it.FixedOK = l.fixedOf(recv)
					l.bwWrite(cur, off, it)
					items = append(items, it)
					continue
				}
			}
		case *ast.RangeStmt:
			l.bwClosed(cur, s.Pos(), "before loop")
			n := l.enterRange(x)
			l.depth++
			inner := &cursor{}
			body := l.bwBlock(x.Body.List, inner, false)
			l.bwClosed(inner, x.Body.Rbrace, "end of loop body")
			d := l.depth
			l.depth--
			l.popRenames(n)
			it := Item{Kind: KLoop, Operand: l.op(x.X), Body: body, Pos: s.Pos()}
			if isMapType(l.Info.TypeOf(x.X)) {
				it.Kind = KMapLoop
				it.Key, it.Body = splitMapBody(body, d)
			}
			items = append(items, it)
			continue
		case *ast.BlockStmt:
			if it, ok := l.dateBlock(x, func(st ast.Stmt) (string, ast.Expr, bool) {
				stem, val, off, ok := l.bwPutStmt(st)
				if ok && !off.IsZero() {
					return "", nil, false
				}
				return stem, val, ok
			}); ok {
				l.bwWrite(cur, Const(0), it)
				items = append(items, it)
				continue
			}
		case *ast.IfStmt:
			if it, ok := l.dateAlt(x, func(st ast.Stmt) (string, ast.Expr, bool) {
				stem, val, off, ok := l.bwPutStmt(st)
				if ok && !off.IsZero() {
					return "", nil, false
				}
				return stem, val, ok
			}); ok {
				l.bwWrite(cur, Const(0), it)
				items = append(items, it)
				continue
			}
			// if p != nil { tag; body [; return at] }
			if operand, ok := l.optOperand(x.Cond); ok && x.Else == nil && x.Init == nil {
				l.bwClosed(cur, s.Pos(), "before optional member")
				inner := &cursor{}
				body := l.bwBlock(x.Body.List, inner, false)
				it := Item{Kind: KOpt, Operand: operand, Pos: s.Pos(), Tag: -1}
				if len(body) > 0 && body[0].Kind == KConstByte {
					it.Tag = body[0].Tag
					body = body[1:]
				}
				if len(body) > 0 && body[len(body)-1].Kind == KUnknown && body[len(body)-1].Text == "$return" {
					it.Returns = true
					body = body[:len(body)-1]
				} else {
					l.bwClosed(inner, x.Body.Rbrace, "end of optional member")
				}
				it.Body = body
				items = append(items, it)
				continue
			}
		case *ast.ReturnStmt:
			if len(x.Results) == 1 {
				if l.isIdent(x.Results[0], "at") {
					l.bwClosed(cur, s.Pos(), "return at")
					if l.bwHole && !l.bwPatched {
						l.fail("cursor", "", s.Pos(), "this return is reached with the 4 bytes left for the length prefix at the record start never written")
					}
					l.bwPatched = false
					l.Returns = append(l.Returns, "at")
					if !top {
						items = append(items, Item{Kind: KUnknown, Text: "$return", Pos: s.Pos()})
					}
					continue
				}
				if n, ok := intLit(x.Results[0]); ok && n == 0 && cur.front.IsZero() {
					l.Returns = append(l.Returns, "0")
					continue
				}
				l.fail("return", "", s.Pos(), "MarshalBebopTo returns %s, not the cursor", Canon(x.Results[0]))
				l.Returns = append(l.Returns, Canon(x.Results[0]))
				continue
			}
		}
		items = append(items, l.unknown(s))
	}
	return items
}

// optOperand reads the guard of an optional member: `p != nil` is the member p
// being set; `p != nil && extra` is a member that is also left out when extra
// is false, and the operand says so (the wire format transmits every member
// that is set, so this differs from the spec's OPT(p) in every comparison).
func (l *Lifter) optOperand(cond ast.Expr) (string, bool) {
	if p, ok := nilTest(cond); ok {
		return l.op(p), true
	}
	if b, ok := unparen(cond).(*ast.BinaryExpr); ok && b.Op == token.LAND {
		if p, ok := nilTest(b.X); ok {
			return l.op(p) + " && " + l.rename(Canon(b.Y)), true
		}
	}
	return "", false
}

// nilTest matches `p != nil` and returns p.
func nilTest(e ast.Expr) (ast.Expr, bool) {
	b, ok := unparen(e).(*ast.BinaryExpr)
	if !ok || b.Op != token.NEQ {
		return nil, false
	}
	if id, ok := unparen(b.Y).(*ast.Ident); ok && id.Name == "nil" {
		return b.X, true
	}
	return nil, false
}

// ---- EncodeBebop ----------------------------------------------------------

func (l *Lifter) LiftSW(fd *ast.FuncDecl) []Item {
	return l.swBlock(fd.Body.List, true)
}

func (l *Lifter) swPutStmt(s ast.Stmt) (stem string, val ast.Expr, ok bool) {
	es, isExpr := s.(*ast.ExprStmt)
	if !isExpr {
		return
	}
	c, name, isIo := l.iohelpCall(es.X)
	if !isIo || !strings.HasPrefix(name, "Write") || strings.HasSuffix(name, "Bytes") || len(c.Args) != 2 || !l.isIdent(c.Args[0], "w") {
		return
	}
	return strings.TrimPrefix(name, "Write"), c.Args[1], true
}

func (l *Lifter) swBlock(stmts []ast.Stmt, top bool) []Item {
	var items []Item
	for i := 0; i < len(stmts); i++ {
		s := stmts[i]
		// w := iohelp.NewErrorWriter(iow)
		if as, ok := s.(*ast.AssignStmt); ok && as.Tok == token.DEFINE && len(as.Lhs) == 1 && l.isIdent(as.Lhs[0], "w") && top {
			if c, name, ok := l.iohelpCall(as.Rhs[0]); ok && name == "NewErrorWriter" && len(c.Args) == 1 {
				continue
			}
		}
		if stem, val, ok := l.swPutStmt(s); ok {
			if _, known := widthOfStem[stem]; !known {
				items = append(items, l.unknown(s))
				continue
			}
			items = append(items, l.classifyPut(stem, val, s.Pos()))
			continue
		}
		switch x := s.(type) {
		case *ast.EmptyStmt:
			continue
		case *ast.ExprStmt:
			// w.Write(...)
			if recv, c, ok := methodCall(x.X, "Write"); ok && l.isIdent(recv, "w") && len(c.Args) == 1 {
				arg := unparen(c.Args[0])
				if cl, ok := arg.(*ast.CompositeLit); ok && len(cl.Elts) == 1 {
					if n, ok := intLit(cl.Elts[0]); ok {
						items = append(items, Item{Kind: KConstByte, Tag: n, Pos: s.Pos()})
						continue
					}
				}
				inner, _ := l.stripConv(arg)
				items = append(items, Item{Kind: KRaw, Operand: l.op(inner), Pos: s.Pos()})
				continue
			}
		case *ast.AssignStmt:
			// _, err = w.Write(...): the same write; err is a copy of what this
			// one call latched (returning it is judged where it is returned)
			if len(x.Lhs) == 2 && len(x.Rhs) == 1 && l.isIdent(x.Lhs[0], "_") && l.isIdent(x.Lhs[1], "err") {
				if recv, c, ok := methodCall(x.Rhs[0], "Write"); ok && l.isIdent(recv, "w") && len(c.Args) == 1 {
					arg := unparen(c.Args[0])
					if cl, ok := arg.(*ast.CompositeLit); ok && len(cl.Elts) == 1 {
						if n, ok := intLit(cl.Elts[0]); ok {
							items = append(items, Item{Kind: KConstByte, Tag: n, Pos: s.Pos()})
							continue
						}
					}
					inner, _ := l.stripConv(arg)
					items = append(items, Item{Kind: KRaw, Operand: l.op(inner), Pos: s.Pos()})
					continue
				}
			}
			// err = (x).EncodeBebop(w) ; if err != nil { return err }
			if len(x.Lhs) == 1 && len(x.Rhs) == 1 && x.Tok == token.ASSIGN && l.isIdent(x.Lhs[0], "err") {
				if recv, c, ok := methodCall(x.Rhs[0], "EncodeBebop"); ok && len(c.Args) == 1 && l.isIdent(c.Args[0], "w") {
					it := Item{Kind: KRec, Operand: l.op(recv), Pos: s.Pos()}
					it.Fixed, it.FixedOK = l.fixedOf(recv)
					if i+1 < len(stmts) && isErrReturn(stmts[i+1]) {
						i++
					} else {
						l.fail("errprop", it.Operand, s.Pos(), "error of nested %s.EncodeBebop is not returned immediately", it.Operand)
					}
					items = append(items, it)
					continue
				}
			}
		case *ast.RangeStmt:
			n := l.enterRange(x)
			l.depth++
			body := l.swBlock(x.Body.List, false)
			d := l.depth
			l.depth--
			l.popRenames(n)
			it := Item{Kind: KLoop, Operand: l.op(x.X), Body: body, Pos: s.Pos()}
			if isMapType(l.Info.TypeOf(x.X)) {
				it.Kind = KMapLoop
				it.Key, it.Body = splitMapBody(body, d)
			}
			items = append(items, it)
			continue
		case *ast.BlockStmt:
			if it, ok := l.dateBlock(x, func(st ast.Stmt) (string, ast.Expr, bool) { return l.swPutStmt(st) }); ok {
				items = append(items, it)
				continue
			}
		case *ast.IfStmt:
			if it, ok := l.dateAlt(x, func(st ast.Stmt) (string, ast.Expr, bool) { return l.swPutStmt(st) }); ok {
				items = append(items, it)
				continue
			}
			if operand, ok := l.optOperand(x.Cond); ok && x.Else == nil && x.Init == nil {
				body := l.swBlock(x.Body.List, false)
				it := Item{Kind: KOpt, Operand: operand, Pos: s.Pos(), Tag: -1}
				if len(body) > 0 && body[0].Kind == KConstByte {
					it.Tag = body[0].Tag
					body = body[1:]
				}
				if len(body) > 0 && body[len(body)-1].Kind == KUnknown && body[len(body)-1].Text == "$return" {
					it.Returns = true
					body = body[:len(body)-1]
				}
				it.Body = body
				items = append(items, it)
				continue
			}
		case *ast.ReturnStmt:
			if len(x.Results) == 1 {
				r := Canon(x.Results[0])
				l.Returns = append(l.Returns, r)
				if r != "w.Err" && !(r == "nil" && top && len(items) == 0) {
					l.fail("return", "", s.Pos(), "EncodeBebop returns %s instead of the writer's latched error", r)
				}
				if !top {
					items = append(items, Item{Kind: KUnknown, Text: "$return", Pos: s.Pos()})
				}
				continue
			}
		}
		items = append(items, l.unknown(s))
	}
	return items
}

// isErrReturn matches  if err != nil { return err }.
func isErrReturn(s ast.Stmt) bool {
	ifs, ok := s.(*ast.IfStmt)
	if !ok || ifs.Else != nil || ifs.Init != nil || len(ifs.Body.List) != 1 {
		return false
	}
	p, ok := nilTest(ifs.Cond)
	if !ok {
		return false
	}
	if id, ok := unparen(p).(*ast.Ident); !ok || id.Name != "err" {
		return false
	}
	r, ok := ifs.Body.List[0].(*ast.ReturnStmt)
	if !ok || len(r.Results) != 1 {
		return false
	}
	id, ok := unparen(r.Results[0]).(*ast.Ident)
	return ok && id.Name == "err"
}

// ---- Size -----------------------------------------------------------------

// SzNode is the symbolic value of Size(): straight-line byte counts, loops
// and optional members.
type SzNode struct {
	Lin     Lin
	Loop    *SzLoop
	Opt     *SzOpt
	Unknown string
	Pos     token.Pos
}

type SzLoop struct {
	Operand string
	Body    []SzNode
}

type SzOpt struct {
	Operand string
	Body    []SzNode
	Returns bool
}

func (l *Lifter) LiftSZ(fd *ast.FuncDecl) []SzNode {
	l.foldFixedSize = true
	defer func() { l.foldFixedSize = false }()
	return l.szBlock(fd.Body.List, true)
}

func (l *Lifter) szBlock(stmts []ast.Stmt, top bool) []SzNode {
	var out []SzNode
	add := func(d Lin, pos token.Pos) {
		if n := len(out); n > 0 && out[n-1].Loop == nil && out[n-1].Opt == nil && out[n-1].Unknown == "" {
			out[n-1].Lin = out[n-1].Lin.Add(d)
			return
		}
		out = append(out, SzNode{Lin: d, Pos: pos})
	}
	for _, s := range stmts {
		if as, ok := s.(*ast.AssignStmt); ok && as.Tok == token.DEFINE && len(as.Lhs) == 1 && l.isIdent(as.Lhs[0], "bodyLen") && top {
			if n, ok := intLit(as.Rhs[0]); ok {
				add(Const(n), s.Pos())
				continue
			}
		}
		if d, ok := l.accStmt(s, "bodyLen"); ok {
			add(d, s.Pos())
			continue
		}
		if d, ok := l.tmpBlock(s, "bodyLen"); ok {
			add(d, s.Pos())
			continue
		}
		switch x := s.(type) {
		case *ast.EmptyStmt:
			continue
		case *ast.RangeStmt:
			n := l.enterRange(x)
			l.depth++
			body := l.szBlock(x.Body.List, false)
			l.depth--
			l.popRenames(n)
			out = append(out, SzNode{Loop: &SzLoop{Operand: l.op(x.X), Body: body}, Pos: s.Pos()})
			continue
		case *ast.IfStmt:
			if operand, ok := l.optOperand(x.Cond); ok && x.Else == nil && x.Init == nil {
				body := l.szBlock(x.Body.List, false)
				o := &SzOpt{Operand: operand}
				if n := len(body); n > 0 && body[n-1].Unknown == "$return" {
					o.Returns = true
					body = body[:n-1]
				}
				o.Body = body
				out = append(out, SzNode{Opt: o, Pos: s.Pos()})
				continue
			}
		case *ast.ReturnStmt:
			if len(x.Results) == 1 {
				if l.isIdent(x.Results[0], "bodyLen") {
					l.Returns = append(l.Returns, "bodyLen")
					if !top {
						out = append(out, SzNode{Unknown: "$return", Pos: s.Pos()})
					}
					continue
				}
				if n, ok := intLit(x.Results[0]); ok && len(out) == 0 {
					add(Const(n), s.Pos())
					l.Returns = append(l.Returns, "const")
					continue
				}
				l.fail("return", "", s.Pos(), "Size returns %s, not the accumulated length", Canon(x.Results[0]))
				continue
			}
		}
		out = append(out, SzNode{Unknown: strings.Join(strings.Fields(l.Src(s)), " "), Pos: s.Pos()})
	}
	return out
}

// SizeOf computes the Size() tree a wire signature implies.
func SizeOf(items []Item) []SzNode {
	var out []SzNode
	add := func(d Lin) {
		if n := len(out); n > 0 && out[n-1].Loop == nil && out[n-1].Opt == nil {
			out[n-1].Lin = out[n-1].Lin.Add(d)
			return
		}
		out = append(out, SzNode{Lin: d})
	}
	for _, it := range items {
		switch it.Kind {
		case KScalar:
			add(Const(widthOfStem[baseStem(it.Prim)]))
		case KCount, KPrefix:
			add(Const(4))
		case KConstByte:
			add(Const(1))
		case KRaw:
			add(Term("len("+it.Operand+")", 1))
		case KRec:
			if it.FixedOK {
				// a struct of fixed-size fields occupies exactly that many bytes
				add(Const(it.Fixed))
			} else {
				add(Term("size("+it.Operand+")", 1))
			}
		case KLoop, KMapLoop:
			body := SizeOf(append(append([]Item{}, it.Key...), it.Body...))
			out = append(out, SzNode{Loop: &SzLoop{Operand: it.Operand, Body: body}})
		case KOpt:
			body := SizeOf(it.Body)
			body = prependConst(body, 1)
			out = append(out, SzNode{Opt: &SzOpt{Operand: it.Operand, Body: body, Returns: it.Returns}})
		}
	}
	return out
}

func prependConst(body []SzNode, c int) []SzNode {
	if len(body) > 0 && body[0].Loop == nil && body[0].Opt == nil {
		body[0].Lin = body[0].Lin.Add(Const(c))
		return body
	}
	return append([]SzNode{{Lin: Const(c)}}, body...)
}

// NormSz folds constant-width loops into len(x)*c, merges adjacent
// straight-line nodes and drops zero nodes.
func NormSz(nodes []SzNode) []SzNode {
	var out []SzNode
	add := func(n SzNode) {
		if n.Loop == nil && n.Opt == nil && n.Unknown == "" {
			if n.Lin.IsZero() {
				return
			}
			if k := len(out); k > 0 && out[k-1].Loop == nil && out[k-1].Opt == nil && out[k-1].Unknown == "" {
				out[k-1].Lin = out[k-1].Lin.Add(n.Lin)
				return
			}
		}
		out = append(out, n)
	}
	for _, n := range nodes {
		switch {
		case n.Loop != nil:
			body := NormSz(n.Loop.Body)
			if len(body) == 0 {
				continue
			}
			if len(body) == 1 && body[0].Loop == nil && body[0].Opt == nil && body[0].Unknown == "" && body[0].Lin.IsConst() {
				add(SzNode{Lin: Term("len("+n.Loop.Operand+")", body[0].Lin.C), Pos: n.Pos})
				continue
			}
			add(SzNode{Loop: &SzLoop{Operand: n.Loop.Operand, Body: body}, Pos: n.Pos})
		case n.Opt != nil:
			add(SzNode{Opt: &SzOpt{Operand: n.Opt.Operand, Body: NormSz(n.Opt.Body), Returns: n.Opt.Returns}, Pos: n.Pos})
		default:
			add(n)
		}
	}
	return out
}

func SzString(nodes []SzNode) string {
	var parts []string
	for _, n := range nodes {
		switch {
		case n.Unknown != "":
			parts = append(parts, "UNKNOWN("+n.Unknown+")")
		case n.Loop != nil:
			parts = append(parts, "SUM("+n.Loop.Operand+")["+SzString(n.Loop.Body)+"]")
		case n.Opt != nil:
			r := ""
			if n.Opt.Returns {
				r = " return"
			}
			parts = append(parts, "IF("+n.Opt.Operand+")["+SzString(n.Opt.Body)+r+"]")
		default:
			parts = append(parts, n.Lin.String())
		}
	}
	return strings.Join(parts, " ; ")
}

// fixedOf: the expression is a value of a generated struct type whose wire
// size is a constant per the spec-side table (RecFixed).
func (l *Lifter) fixedOf(e ast.Expr) (int, bool) {
	if l.RecFixed == nil || l.Info == nil {
		return 0, false
	}
	t := l.Info.TypeOf(e)
	if t == nil {
		return 0, false
	}
	if pt, ok := t.(*types.Pointer); ok {
		t = pt.Elem()
	}
	nt, ok := t.(*types.Named)
	if !ok {
		return 0, false
	}
	return l.RecFixed(nt.Obj().Name())
}

// baseStem: "Date<ticks = …>" -> "Date" (a scalar written with a conversion
// other than the format's keeps its width).
func baseStem(prim string) string {
	if i := strings.Index(prim, "<"); i >= 0 {
		return prim[:i]
	}
	return prim
}
