package genfacts

import (
	"fmt"
	"go/ast"
	"go/importer"
	"go/parser"
	"go/token"
	"go/types"
	"strings"
	"unicode"

	"bebopverif/internal/geneval"
	"bebopverif/internal/load"

	"golang.org/x/tools/go/packages"
)

// GenFile is one abstractly generated Go file, parsed and type-checked.
type GenFile struct {
	Opts     geneval.Options
	Batch    int
	Text     string
	GenErr   string
	EvalErr  error
	ParseErr error
	TypeErrs []types.Error
	Fset     *token.FileSet
	AST      *ast.File
	Info     *types.Info
	Pkg      *types.Package
	Records  []RecordSpec
	Methods  map[string]*ast.FuncDecl // "GoType.Method"
	Funcs    map[string]*ast.FuncDecl // package-level functions
	lines    []string
}

// GoTypeName is the Go identifier a schema name gets under the options (the
// naming rule of the generator's public contract: exported unless private).
func GoTypeName(name string, o geneval.Options) string {
	if name == "" {
		return name
	}
	r := []rune(name)
	if o.Private {
		r[0] = unicode.ToLower(r[0])
	} else {
		r[0] = unicode.ToUpper(r[0])
	}
	return string(r)
}

func GoFieldName(name string, readonly bool, o geneval.Options) string {
	r := []rune(name)
	if readonly || o.Private {
		r[0] = unicode.ToLower(r[0])
	} else {
		r[0] = unicode.ToUpper(r[0])
	}
	return string(r)
}

type Gen struct {
	P   *load.Prog
	In  *geneval.Interp
	B   *geneval.Builder
	U   *Universe
	imp types.Importer
}

type mapImporter struct {
	m        map[string]*types.Package
	fallback types.Importer
}

func (mi mapImporter) Import(path string) (*types.Package, error) {
	if p, ok := mi.m[path]; ok {
		return p, nil
	}
	return nil, fmt.Errorf("package %q is not among the packages loaded from /repo and its dependencies", path)
}

func NewGen(p *load.Prog) (*Gen, error) {
	in := geneval.New(p)
	b, err := geneval.NewBuilder(in)
	if err != nil {
		return nil, err
	}
	m := map[string]*types.Package{}
	var roots []*packages.Package
	for _, pk := range p.Pkgs {
		roots = append(roots, pk)
	}
	packages.Visit(roots, nil, func(pk *packages.Package) {
		if pk.Types != nil {
			m[pk.PkgPath] = pk.Types
		}
	})
	_ = importer.Default
	return &Gen{P: p, In: in, B: b, U: NewUniverse(), imp: mapImporter{m: m}}, nil
}

// Plan is the list of records explored, split into batches (one Go package
// each).
type Plan struct {
	Batches [][]RecordSpec
}

// MakePlan builds struct and message records, one per shape, plus the fixed
// multi-field records.
func (g *Gen) MakePlan(shapes []geneval.Shape, perBatch int) Plan {
	var all []RecordSpec
	for i, s := range shapes {
		all = append(all, RecordSpec{Name: fmt.Sprintf("S%d", i), Kind: ClsStruct, Fields: []RecField{{Name: "f", Shape: s}}})
		all = append(all, RecordSpec{Name: fmt.Sprintf("M%d", i), Kind: ClsMessage, Fields: []RecField{{Name: "f", Num: 1, Shape: s}}})
	}
	var plan Plan
	for len(all) > 0 {
		n := perBatch
		if n > len(all) {
			n = len(all)
		}
		plan.Batches = append(plan.Batches, all[:n])
		all = all[n:]
	}
	// multi-field records live in batch 0
	S := geneval.Simple
	multi := []RecordSpec{
		{Name: "SMulti", Kind: ClsStruct, Fields: []RecField{
			{Name: "a", Shape: geneval.MapOf("string", S("int32"))},
			{Name: "b", Shape: geneval.MapOf("int32", S("string"))},
			{Name: "c", Shape: geneval.Arr(S("int32"))},
			{Name: "d", Shape: S("string")},
			{Name: "e", Shape: geneval.MapOf("string", geneval.Arr(S(StructA)))},
			{Name: "g", Shape: geneval.Arr(geneval.MapOf("guid", S(MessageA)))},
			{Name: "Upper", Shape: S("bool")},
		}},
		{Name: "SRoMulti", Kind: ClsStruct, RO: true, Fields: []RecField{
			{Name: "a", Shape: geneval.MapOf("string", S("date"))},
			{Name: "b", Shape: geneval.Arr(S("byte"))},
			{Name: "c", Shape: S(UnionA)},
			{Name: "d", Shape: geneval.MapOf("uint8", geneval.MapOf("string", S(EnumName("int16"))))},
		}},
		{Name: "MMulti", Kind: ClsMessage, Fields: []RecField{
			{Name: "a", Num: 1, Shape: S("int32")},
			{Name: "b", Num: 2, Shape: S("string"), Deprecated: true},
			{Name: "c", Num: 3, Shape: geneval.MapOf("string", S(StructA))},
			{Name: "d", Num: 7, Shape: geneval.Arr(S(StructA))},
			{Name: "e", Num: 255, Shape: S(MessageA)},
			{Name: "g", Num: 9, Shape: geneval.Arr(S("uint8")), Deprecated: true},
		}},
		{Name: "SMulti2", Kind: ClsStruct, Fields: []RecField{
			{Name: "x", Shape: geneval.Arr(geneval.MapOf("string", S("int32")))},
			{Name: "y", Shape: geneval.MapOf("string", S("int32"))},
			{Name: "z", Shape: geneval.MapOf("int32", geneval.MapOf("string", S("date")))},
			{Name: "w", Shape: geneval.MapOf("string", S("guid"))},
		}},
		bigStruct(),
		{Name: "SEmpty", Kind: ClsStruct},
		{Name: "MEmpty", Kind: ClsMessage},
		{Name: "UEmpty", Kind: ClsUnion},
		{Name: "UMulti", Kind: ClsUnion, Fields: []RecField{
			{Name: "UMs", Num: 1, Branch: "struct"},
			{Name: "UMm", Num: 2, Branch: "message"},
			{Name: "UMe", Num: 200, Branch: "struct-empty"},
		}},
	}
	if len(plan.Batches) == 0 {
		plan.Batches = append(plan.Batches, nil)
	}
	plan.Batches[0] = append(append([]RecordSpec{}, multi...), plan.Batches[0]...)
	return plan
}

func (g *Gen) fileFor(recs []RecordSpec) *geneval.StructV {
	b := g.B
	fs := g.U.BaseDefs(b)
	fs.GoPackage = "example.com/x/gen"
	for _, r := range recs {
		switch r.Kind {
		case ClsStruct:
			var fds []geneval.FieldSpec
			for _, f := range r.Fields {
				fds = append(fds, geneval.FieldSpec{Name: f.Name, Shape: f.Shape, Deprecated: f.Deprecated})
			}
			fs.Structs = append(fs.Structs, b.Struct(r.Name, r.RO, 0, fds...))
		case ClsMessage:
			var fds []geneval.NumField
			for _, f := range r.Fields {
				fds = append(fds, geneval.NumField{Num: f.Num, FieldSpec: geneval.FieldSpec{Name: f.Name, Shape: f.Shape, Deprecated: f.Deprecated}})
			}
			fs.Messages = append(fs.Messages, b.Message(r.Name, 0, fds...))
		case ClsUnion:
			var brs []geneval.Branch
			for _, f := range r.Fields {
				switch f.Branch {
				case "struct":
					brs = append(brs, geneval.Branch{Num: f.Num, Struct: b.Struct(f.Name, false, 0,
						geneval.FieldSpec{Name: "k", Shape: geneval.MapOf("string", geneval.Arr(geneval.Simple("int32")))},
						geneval.FieldSpec{Name: "m", Shape: geneval.Simple(MessageA)})})
				case "struct-empty":
					brs = append(brs, geneval.Branch{Num: f.Num, Struct: b.Struct(f.Name, false, 0)})
				case "message":
					brs = append(brs, geneval.Branch{Num: f.Num, Message: b.Message(f.Name, 0,
						geneval.NumField{Num: 1, FieldSpec: geneval.FieldSpec{Name: "u", Shape: geneval.Arr(geneval.Simple("string"))}},
						geneval.NumField{Num: 3, FieldSpec: geneval.FieldSpec{Name: "w", Shape: geneval.Simple(EnumName("uint32"))}})})
				}
			}
			fs.Unions = append(fs.Unions, b.Union(r.Name, 0, brs...))
		}
	}
	return b.File(fs)
}

// Generate folds File.Generate over one batch under one option set.
func (g *Gen) Generate(batch int, recs []RecordSpec, o geneval.Options) *GenFile {
	gf := &GenFile{Opts: o, Batch: batch, Records: recs, Methods: map[string]*ast.FuncDecl{}, Funcs: map[string]*ast.FuncDecl{}}
	g.In.Fuel = 200_000_000
	f := g.fileFor(recs)
	text, gerr, err := g.B.GenerateFile(f, o)
	gf.Text, gf.GenErr, gf.EvalErr = text, gerr, err
	if err != nil || gerr != "" {
		return gf
	}
	g.ParseAndCheck(gf)
	return gf
}

// GenerateSpec is Generate for an explicit file (used by targeted probes).
func (g *Gen) GenerateSpec(fs geneval.FileSpec, o geneval.Options) *GenFile {
	gf := &GenFile{Opts: o, Methods: map[string]*ast.FuncDecl{}, Funcs: map[string]*ast.FuncDecl{}}
	g.In.Fuel = 200_000_000
	text, gerr, err := g.B.GenerateFile(g.B.File(fs), o)
	gf.Text, gf.GenErr, gf.EvalErr = text, gerr, err
	if err != nil || gerr != "" {
		return gf
	}
	g.ParseAndCheck(gf)
	return gf
}

func (g *Gen) ParseAndCheck(gf *GenFile) { g.parseAndCheckAs(gf, "gen", nil) }

type extraImporter struct {
	base  types.Importer
	extra map[string]*types.Package
}

func (e extraImporter) Import(path string) (*types.Package, error) {
	if p, ok := e.extra[path]; ok {
		return p, nil
	}
	return e.base.Import(path)
}

func (g *Gen) parseAndCheckAs(gf *GenFile, pkgPath string, extra map[string]*types.Package) {
	gf.Fset = token.NewFileSet()
	name := fmt.Sprintf("gen_b%d_%s.go", gf.Batch, gf.Opts)
	af, err := parser.ParseFile(gf.Fset, name, gf.Text, parser.ParseComments|parser.SkipObjectResolution)
	if err != nil {
		gf.ParseErr = err
		return
	}
	gf.AST = af
	gf.Info = &types.Info{
		Types:      map[ast.Expr]types.TypeAndValue{},
		Defs:       map[*ast.Ident]types.Object{},
		Uses:       map[*ast.Ident]types.Object{},
		Selections: map[*ast.SelectorExpr]*types.Selection{},
		Implicits:  map[ast.Node]types.Object{},
		Scopes:     map[ast.Node]*types.Scope{},
	}
	conf := types.Config{Importer: extraImporter{base: g.imp, extra: extra}, Error: func(err error) {
		if te, ok := err.(types.Error); ok {
			gf.TypeErrs = append(gf.TypeErrs, te)
		}
	}}
	pkg, _ := conf.Check(pkgPath, gf.Fset, []*ast.File{af}, gf.Info)
	gf.Pkg = pkg
	for _, d := range af.Decls {
		fd, ok := d.(*ast.FuncDecl)
		if !ok {
			continue
		}
		if fd.Recv == nil || len(fd.Recv.List) == 0 {
			gf.Funcs[fd.Name.Name] = fd
			continue
		}
		t := fd.Recv.List[0].Type
		if st, ok := t.(*ast.StarExpr); ok {
			t = st.X
		}
		if id, ok := t.(*ast.Ident); ok {
			gf.Methods[id.Name+"."+fd.Name.Name] = fd
		}
	}
}

// Line returns "genfile:line: text" for a position in generated code.
func (gf *GenFile) Line(pos token.Pos) string {
	if gf.Fset == nil || !pos.IsValid() {
		return "?"
	}
	p := gf.Fset.Position(pos)
	if gf.lines == nil {
		gf.lines = strings.Split(gf.Text, "\n")
	}
	lines := gf.lines
	txt := ""
	if p.Line-1 < len(lines) && p.Line >= 1 {
		txt = strings.TrimSpace(lines[p.Line-1])
	}
	return fmt.Sprintf("%s:%d `%s`", p.Filename, p.Line, txt)
}

// Snippet returns the source text of a node of the generated file.
func (gf *GenFile) Snippet(n ast.Node) string {
	if gf.Fset == nil || n == nil {
		return ""
	}
	s := gf.Fset.Position(n.Pos()).Offset
	e := gf.Fset.Position(n.End()).Offset
	if s < 0 || e > len(gf.Text) || s > e {
		return ""
	}
	return gf.Text[s:e]
}

// bigStruct is a flat struct of fixed-size fields wider than 255 bytes on
// the wire (sizes summed in a narrow integer would wrap).
func bigStruct() RecordSpec {
	r := RecordSpec{Name: "SBig", Kind: ClsStruct}
	for i := 0; i < 19; i++ {
		r.Fields = append(r.Fields, RecField{Name: fmt.Sprintf("g%d", i), Shape: geneval.Simple("guid")})
	}
	r.Fields = append(r.Fields, RecField{Name: "tail", Shape: geneval.Simple("int64")}, RecField{Name: "flag", Shape: geneval.Simple("bool")})
	return r
}

// TextOnly folds File.Generate over one batch and returns the emitted text
// without parsing it (used to compare folds that differ in map iteration order).
func (g *Gen) TextOnly(recs []RecordSpec, o geneval.Options, reverseMaps bool) (text, genErr string, err error) {
	g.In.Fuel = 200_000_000
	g.In.ReverseMaps = reverseMaps
	defer func() { g.In.ReverseMaps = false }()
	f := g.fileFor(recs)
	return g.B.GenerateFile(f, o)
}
