package genfacts

import (
	"go/ast"
	"go/types"

	"bebopverif/internal/geneval"
)

// Import scenario: root.bop imports sub/a.bop, which imports deep/b.bop, which
// imports c.bop lying next to it: every path only resolves relative to the
// file that contains the import, at two levels below the root.
const (
	ImpRootPath = "/virt/root.bop"
	ImpAPath    = "/virt/sub/a.bop"
	ImpBPath    = "/virt/sub/deep/b.bop"
	ImpCPath    = "/virt/sub/deep/c.bop"
	ImpPkgC     = "example.com/x/impc"
	ImpPkgA     = "example.com/x/imp"
	ImpPkgB     = "example.com/x/impb/v2" // a major-version path: package clause and qualifier must agree on its name
	ImpPkgRoot  = "example.com/x/root"
)

// ImportTypes are the names the import scenario adds to the universe.
func (u *Universe) AddImportTypes() {
	u.Types["IEn"] = TypeInfo{Name: "IEn", Class: ClsEnum, Base: "uint16"}
	u.Types["ISt"] = TypeInfo{Name: "ISt", Class: ClsStruct}
	u.Types["IMs"] = TypeInfo{Name: "IMs", Class: ClsMessage}
	u.Types["IUn"] = TypeInfo{Name: "IUn", Class: ClsUnion}
	u.Types["IBs"] = TypeInfo{Name: "IBs", Class: ClsStruct}
}

func (g *Gen) importFiles() (root, a, b, c geneval.FileSpec, recs []RecordSpec) {
	bb := g.B
	S := geneval.Simple
	c = geneval.FileSpec{GoPackage: ImpPkgC, Structs: []geneval.Value{
		bb.Struct("ICs", false, 0, geneval.FieldSpec{Name: "z", Shape: S("int32")}),
	}}
	b = geneval.FileSpec{GoPackage: ImpPkgB, Structs: []geneval.Value{
		bb.Struct("IBs", false, 0, geneval.FieldSpec{Name: "d", Shape: S("date")}),
	}}
	a = geneval.FileSpec{GoPackage: ImpPkgA,
		Enums:    []geneval.Value{bb.Enum("IEn", "uint16", true, geneval.OptSpec{Name: "A", UintValue: 1})},
		Structs:  []geneval.Value{bb.Struct("ISt", false, 0, geneval.FieldSpec{Name: "a", Shape: S("int32")}, geneval.FieldSpec{Name: "b", Shape: S("string")}, geneval.FieldSpec{Name: "c", Shape: S("IBs")})},
		Messages: []geneval.Value{bb.Message("IMs", 0, geneval.NumField{Num: 1, FieldSpec: geneval.FieldSpec{Name: "e", Shape: S("IEn")}})},
		Unions:   []geneval.Value{bb.Union("IUn", 0, geneval.Branch{Num: 1, Struct: bb.Struct("IUb", false, 0, geneval.FieldSpec{Name: "g", Shape: S("guid")})})},
	}
	recs = []RecordSpec{
		{Name: "RS", Kind: ClsStruct, Fields: []RecField{
			{Name: "s", Shape: S("ISt")},
			{Name: "ms", Shape: geneval.Arr(S("IMs"))},
			{Name: "es", Shape: geneval.MapOf("string", S("IEn"))},
			{Name: "u", Shape: S("IUn")},
			{Name: "bs", Shape: geneval.MapOf("guid", geneval.Arr(S("IBs")))},
			{Name: "e", Shape: geneval.Arr(S("IEn"))},
		}},
		{Name: "RM", Kind: ClsMessage, Fields: []RecField{
			{Name: "s", Num: 1, Shape: S("ISt")},
			{Name: "us", Num: 2, Shape: geneval.Arr(S("IUn"))},
			{Name: "e", Num: 3, Shape: S("IEn")},
			{Name: "m", Num: 4, Shape: geneval.MapOf("uint32", S("IMs"))},
		}},
	}
	root = geneval.FileSpec{GoPackage: ImpPkgRoot}
	for _, r := range recs {
		switch r.Kind {
		case ClsStruct:
			var fds []geneval.FieldSpec
			for _, f := range r.Fields {
				fds = append(fds, geneval.FieldSpec{Name: f.Name, Shape: f.Shape})
			}
			root.Structs = append(root.Structs, bb.Struct(r.Name, false, 0, fds...))
		case ClsMessage:
			var fds []geneval.NumField
			for _, f := range r.Fields {
				fds = append(fds, geneval.NumField{Num: f.Num, FieldSpec: geneval.FieldSpec{Name: f.Name, Shape: f.Shape}})
			}
			root.Messages = append(root.Messages, bb.Message(r.Name, 0, fds...))
		}
	}
	return
}

// ImportResult is the outcome of generating the import scenario in one mode.
type ImportResult struct {
	Combined bool
	Root     *GenFile
	Deps     []*GenFile // separate mode: the imported packages, generated on their own
	Opened   []string
	Recs     []RecordSpec
	// DepErr: an imported package could not be folded by the evaluator, so
	// the root file was checked against an incomplete set of packages and
	// nothing may be concluded from its type errors
	DepErr error
}

// GenerateImports folds File.Generate over the import scenario.
func (g *Gen) GenerateImports(o geneval.Options, combined bool) *ImportResult {
	rootSpec, aSpec, bSpec, cSpec, recs := g.importFiles()
	res := &ImportResult{Combined: combined, Recs: recs}
	cFile := g.B.File(cSpec)
	bFile := g.B.File(bSpec)
	bFile.Set("Imports", geneval.Strs("c.bop"))
	aFile := g.B.File(aSpec)
	aFile.Set("Imports", geneval.Strs("deep/b.bop"))
	rootFile := g.B.File(rootSpec)
	rootFile.Set("Imports", geneval.Strs("sub/a.bop"))
	rootFile.Set("FileName", ImpRootPath)
	g.In.VFS = map[string]*geneval.StructV{ImpAPath: aFile, ImpBPath: bFile, ImpCPath: cFile}
	defer func() { g.In.VFS = nil }()
	o.Combined = combined
	extra := map[string]*types.Package{}
	if !combined {
		// the imported packages are generated on their own, as the mode assumes
		for _, dep := range []struct {
			file *geneval.StructV
			path string
			name string
		}{{cFile, ImpPkgC, ImpCPath}, {bFile, ImpPkgB, ImpBPath}, {aFile, ImpPkgA, ImpAPath}} {
			dfc := dep.file
			dfc.Set("FileName", dep.name)
			gf := &GenFile{Opts: o, Batch: 900 + len(res.Deps), Methods: map[string]*ast.FuncDecl{}, Funcs: map[string]*ast.FuncDecl{}}
			do := o
			do.Package = ""
			// "it is assumed that a namespaced import will not be compiled as
			// private" (gen_templates.go): imported packages are public
			do.Private = false
			g.In.Fuel = 100_000_000
			g.In.Opened = nil
			text, gerr, err := g.B.GenerateFile(dfc, do)
			gf.Text, gf.GenErr, gf.EvalErr = text, gerr, err
			if err != nil && res.DepErr == nil {
				res.DepErr = err
			}
			if err == nil && gerr == "" {
				g.parseAndCheckAs(gf, dep.path, extra)
				if gf.Pkg != nil {
					extra[dep.path] = gf.Pkg
				}
			}
			res.Deps = append(res.Deps, gf)
		}
	}
	gf := &GenFile{Opts: o, Batch: 990, Records: recs, Methods: map[string]*ast.FuncDecl{}, Funcs: map[string]*ast.FuncDecl{}}
	ro := o
	ro.Package = ""
	g.In.Fuel = 100_000_000
	g.In.Opened = nil
	text, gerr, err := g.B.GenerateFile(rootFile, ro)
	res.Opened = append([]string{}, g.In.Opened...)
	gf.Text, gf.GenErr, gf.EvalErr = text, gerr, err
	if err == nil && gerr == "" {
		g.parseAndCheckAs(gf, ImpPkgRoot, extra)
	}
	res.Root = gf
	return res
}
