// Package genfacts enumerates abstract schema shapes, folds the generator over
// them with geneval, and parses + type-checks the emitted text against the
// real iohelp and bebop packages loaded from /repo.
package genfacts

import (
	"fmt"
	"sort"

	"bebopverif/internal/geneval"
)

// Class of a leaf type name in the universe.
type Class int

const (
	ClsFixed Class = iota
	ClsString
	ClsEnum
	ClsStruct
	ClsMessage
	ClsUnion
)

func (c Class) String() string {
	return [...]string{"fixed", "string", "enum", "struct", "message", "union"}[c]
}

// Spec table (transcribed from the published Bebop wire format, independent
// of the repository): width in bytes of every fixed-size primitive.
var SpecWidth = map[string]int{
	"bool": 1, "byte": 1, "uint8": 1, "uint16": 2, "int16": 2, "uint32": 4, "int32": 4,
	"uint64": 8, "int64": 8, "float32": 4, "float64": 8, "guid": 16, "date": 8,
}

var FixedNames = []string{"bool", "byte", "uint8", "uint16", "int16", "uint32", "int32", "uint64", "int64", "float32", "float64", "guid", "date"}

var PrimitiveKeys = []string{"bool", "byte", "uint8", "uint16", "int16", "uint32", "int32", "uint64", "int64", "float32", "float64", "string", "guid", "date"}

// EnumBases are the integer types the parser accepts after "enum X :".
var EnumBases = []string{"byte", "uint8", "uint16", "uint32", "uint64", "int16", "int32", "int64"}

// GoPrim is the Go spelling of a bebop primitive in generated code.
var GoPrim = map[string]string{
	"bool": "bool", "byte": "byte", "uint8": "uint8", "uint16": "uint16", "int16": "int16", "uint32": "uint32", "int32": "int32",
	"uint64": "uint64", "int64": "int64", "float32": "float32", "float64": "float64", "string": "string", "guid": "[16]byte", "date": "time.Time",
}

// Title is the iohelp function-name stem of a primitive, per the wire spec
// table (not derived from the repository's fixedTitleString).
var Title = map[string]string{
	"bool": "Bool", "byte": "Byte", "uint8": "Uint8", "uint16": "Uint16", "int16": "Int16", "uint32": "Uint32", "int32": "Int32",
	"uint64": "Uint64", "int64": "Int64", "float32": "Float32", "float64": "Float64", "guid": "GUID", "date": "Date",
}

type TypeInfo struct {
	Name  string
	Class Class
	Base  string // enum base type
	Empty bool   // record without fields
}

// Universe is the set of named types a shape may mention.
type Universe struct {
	Types map[string]TypeInfo
}

func (u *Universe) Info(name string) (TypeInfo, bool) {
	if w, ok := SpecWidth[name]; ok {
		_ = w
		return TypeInfo{Name: name, Class: ClsFixed}, true
	}
	if name == "string" {
		return TypeInfo{Name: name, Class: ClsString}, true
	}
	t, ok := u.Types[name]
	return t, ok
}

func EnumName(base string) string { return "En" + Title[base] }

const (
	StructA   = "StA" // two-field struct
	StructE   = "StE" // empty struct
	StructR   = "StR" // readonly struct
	MessageA  = "MsA"
	MessageE  = "MsE" // empty message
	UnionA    = "UnA"
	BranchS   = "UbS"
	BranchM   = "UbM"
	LowStruct = "lowSt" // lower-case schema name
	StructM   = "StM"   // struct made of records with framing only
	StructX   = "StX"   // three levels of structs by value: StX -> StW -> StF, declared outermost first
	StructW   = "StW"   // declared before the structs it is made of (forward references)
	StructV   = "StV"   // holds only fixed-size types, but in an array: not fixed-size itself
	StructF   = "StF"   // fixed-size struct (12 bytes)
	StructBig = "StBig" // fixed-size struct of 256 bytes (sixteen guids)
	BranchT   = "UbT"   // union branch whose fields are of a sibling branch type
	StructN   = "StN"   // struct made of enums only (9 bytes): its size rests on the enum size table
)

func NewUniverse() *Universe {
	u := &Universe{Types: map[string]TypeInfo{}}
	for _, b := range EnumBases {
		u.Types[EnumName(b)] = TypeInfo{Name: EnumName(b), Class: ClsEnum, Base: b}
	}
	u.Types[StructA] = TypeInfo{Name: StructA, Class: ClsStruct}
	u.Types[StructE] = TypeInfo{Name: StructE, Class: ClsStruct, Empty: true}
	u.Types[StructR] = TypeInfo{Name: StructR, Class: ClsStruct}
	u.Types[StructM] = TypeInfo{Name: StructM, Class: ClsStruct}
	u.Types[StructW] = TypeInfo{Name: StructW, Class: ClsStruct}
	u.Types[StructX] = TypeInfo{Name: StructX, Class: ClsStruct}
	u.Types[StructV] = TypeInfo{Name: StructV, Class: ClsStruct}
	u.Types[StructF] = TypeInfo{Name: StructF, Class: ClsStruct}
	u.Types[StructBig] = TypeInfo{Name: StructBig, Class: ClsStruct}
	u.Types[StructN] = TypeInfo{Name: StructN, Class: ClsStruct}
	u.Types[MessageA] = TypeInfo{Name: MessageA, Class: ClsMessage}
	u.Types[MessageE] = TypeInfo{Name: MessageE, Class: ClsMessage, Empty: true}
	u.Types[UnionA] = TypeInfo{Name: UnionA, Class: ClsUnion}
	return u
}

// Leaves returns every element type name of the universe in a stable order.
func (u *Universe) Leaves() []string {
	out := append([]string{}, FixedNames...)
	out = append(out, "string")
	var named []string
	for n := range u.Types {
		named = append(named, n)
	}
	sort.Strings(named)
	return append(out, named...)
}

// BaseDefs builds the definitions every generated file contains.
func (u *Universe) BaseDefs(b *geneval.Builder) geneval.FileSpec {
	var fs geneval.FileSpec
	for _, base := range EnumBases {
		unsigned := base[0] != 'i'
		fs.Enums = append(fs.Enums, b.Enum(EnumName(base), base, unsigned,
			geneval.OptSpec{Name: "A", Value: 1, UintValue: 1}, geneval.OptSpec{Name: "B", Value: 2, UintValue: 2, Deprecated: true}))
	}
	var big []geneval.FieldSpec
	for i := 0; i < 16; i++ {
		big = append(big, geneval.FieldSpec{Name: fmt.Sprintf("g%d", i), Shape: geneval.Simple("guid")})
	}
	fs.Structs = append(fs.Structs,
		// declared before the structs it is made of
		b.Struct(StructX, false, 0, geneval.FieldSpec{Name: "w", Shape: geneval.Simple(StructW)}, geneval.FieldSpec{Name: "t", Shape: geneval.Simple("uint8")}),
		b.Struct(StructW, false, 0, geneval.FieldSpec{Name: "f", Shape: geneval.Simple(StructF)}, geneval.FieldSpec{Name: "a", Shape: geneval.Simple(StructA)}),
		b.Struct(StructV, false, 0, geneval.FieldSpec{Name: "c", Shape: geneval.Simple("uint16")}, geneval.FieldSpec{Name: "v", Shape: geneval.Arr(geneval.Simple("int32"))}),
		b.Struct(StructF, false, 0, geneval.FieldSpec{Name: "x", Shape: geneval.Simple("int32")}, geneval.FieldSpec{Name: "y", Shape: geneval.Simple("float64")}),
		b.Struct(StructBig, false, 0, big...),
		b.Struct(StructN, false, 0, geneval.FieldSpec{Name: "k", Shape: geneval.Simple(EnumName("uint8"))}, geneval.FieldSpec{Name: "l", Shape: geneval.Simple(EnumName("int64"))}),
		b.Struct(StructA, false, 0, geneval.FieldSpec{Name: "x", Shape: geneval.Simple("int32")}, geneval.FieldSpec{Name: "s", Shape: geneval.Simple("string")}),
		b.Struct(StructE, false, 0),
		b.Struct(StructM, false, 0, geneval.FieldSpec{Name: "m", Shape: geneval.Simple(MessageA)}, geneval.FieldSpec{Name: "u", Shape: geneval.Simple(UnionA)}),
		b.Struct(StructR, true, 0x12345678, geneval.FieldSpec{Name: "p", Shape: geneval.Simple("uint16")}, geneval.FieldSpec{Name: "q", Shape: geneval.Arr(geneval.Simple("string"))}),
	)
	fs.Messages = append(fs.Messages,
		b.Message(MessageA, 0x31, geneval.NumField{Num: 1, FieldSpec: geneval.FieldSpec{Name: "a", Shape: geneval.Simple("int64")}},
			geneval.NumField{Num: 2, FieldSpec: geneval.FieldSpec{Name: "old", Shape: geneval.Simple("string"), Deprecated: true}},
			geneval.NumField{Num: 5, FieldSpec: geneval.FieldSpec{Name: "c", Shape: geneval.Simple(StructA)}},
			// a two-digit index: "10" sorts before "2" as text
			geneval.NumField{Num: 10, FieldSpec: geneval.FieldSpec{Name: "z", Shape: geneval.Simple("uint8")}}),
		b.Message(MessageE, 0),
	)
	fs.Unions = append(fs.Unions,
		b.Union(UnionA, 0x41424344,
			geneval.Branch{Num: 1, Struct: b.Struct(BranchS, false, 0, geneval.FieldSpec{Name: "n", Shape: geneval.Simple("uint64")})},
			geneval.Branch{Num: 2, Message: b.Message(BranchM, 0, geneval.NumField{Num: 1, FieldSpec: geneval.FieldSpec{Name: "t", Shape: geneval.Simple("date")}})},
			geneval.Branch{Num: 4, Struct: b.Struct("UbE", false, 0)},
			// a branch made of a sibling branch's type, twice: the reader must step over the first
			geneval.Branch{Num: 12, Struct: b.Struct(BranchT, false, 0, geneval.FieldSpec{Name: "p", Shape: geneval.Simple(BranchS)}, geneval.FieldSpec{Name: "q", Shape: geneval.Simple(BranchS)})}),
	)
	return fs
}

// Shapes enumerates field-type shapes up to the given container depth.
// level selects density: 0 = representative, 1 = full leaves at depth<=1,
// 2 = full leaves at every depth (thorough).
func (u *Universe) Shapes(maxDepth int, level int) []geneval.Shape {
	leaves := u.Leaves()
	rep := []string{"bool", "byte", "uint8", "int16", "uint32", "int64", "float64", "guid", "date", "string", EnumName("uint8"), EnumName("int64"), StructA, StructE, StructR, StructM, StructW, StructX, StructV, StructF, StructN, MessageA, UnionA}
	keysAll := PrimitiveKeys
	keysRep := []string{"string", "int32", "guid", "date", "byte"}
	var out []geneval.Shape
	seen := map[string]bool{}
	add := func(s geneval.Shape) {
		k := s.String()
		if !seen[k] {
			seen[k] = true
			out = append(out, s)
		}
	}
	for _, l := range leaves {
		add(geneval.Simple(l))
	}
	if maxDepth >= 1 {
		for _, l := range leaves {
			add(geneval.Arr(geneval.Simple(l)))
		}
		for _, k := range keysAll {
			for _, l := range rep {
				add(geneval.MapOf(k, geneval.Simple(l)))
			}
		}
		for _, k := range []string{"string", "uint32"} {
			for _, l := range leaves {
				add(geneval.MapOf(k, geneval.Simple(l)))
			}
		}
	}
	var build func(depth int, leafSet, keys []string) []geneval.Shape
	build = func(depth int, leafSet, keys []string) []geneval.Shape {
		if depth == 0 {
			var r []geneval.Shape
			for _, l := range leafSet {
				r = append(r, geneval.Simple(l))
			}
			return r
		}
		inner := build(depth-1, leafSet, keys)
		var r []geneval.Shape
		for _, in := range inner {
			if in.Depth() != depth-1 {
				continue
			}
			r = append(r, geneval.Arr(in))
			for _, k := range keys {
				r = append(r, geneval.MapOf(k, in))
			}
		}
		return append(inner, r...)
	}
	if maxDepth >= 2 {
		ls, ks := rep, keysRep[:2]
		if level >= 2 {
			ls, ks = leaves, keysRep
		}
		for _, s := range build(2, ls, ks) {
			add(s)
		}
	}
	if maxDepth >= 3 {
		ls := []string{"byte", "int32", "date", "string", EnumName("uint16"), StructA, MessageA, UnionA}
		ks := []string{"string", "uint64"}
		if level >= 2 {
			ls = rep
		}
		for _, s := range build(3, ls, ks) {
			add(s)
		}
	}
	return out
}

// RecordSpec describes one generated record of the exploration.
type RecordSpec struct {
	Name   string
	Kind   Class // ClsStruct / ClsMessage / ClsUnion
	RO     bool
	Fields []RecField
}

type RecField struct {
	Name       string
	GoName     string // filled after generation (depends on options)
	Num        int
	Shape      geneval.Shape
	Deprecated bool
	// for union branches
	Branch string
}

func (r RecordSpec) String() string { return fmt.Sprintf("%s %s", r.Kind, r.Name) }
