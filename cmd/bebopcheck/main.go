// bebopcheck decides the static rules of DESIGN.md for one property at a time.
//
//	bebopcheck <ID> [--tier quick|thorough] [--repo DIR] [--verif DIR]
//	bebopcheck replay <path>
//	bebopcheck calib <dir>         (development only)
package main

import (
	"encoding/json"
	"flag"
	"fmt"
	"os"
	"sort"
	"strings"

	"bebopverif/internal/core"
	"bebopverif/internal/rules"
)

func main() {
	if len(os.Args) < 2 {
		usage()
	}
	cmd := os.Args[1]
	fs := flag.NewFlagSet("bebopcheck", flag.ExitOnError)
	tier := fs.String("tier", envOr("VERIF_TIER", "quick"), "quick|thorough")
	repo := fs.String("repo", envOr("BEBOP_REPO", "/repo"), "bebop checkout to analyse")
	verif := fs.String("verif", envOr("BEBOP_VERIF", "/verif"), "verif directory (evidence, known findings)")
	only := fs.String("only", "", "replay: restrict report to this obligation id")
	args := os.Args[2:]
	var pos []string
	for len(args) > 0 && len(args[0]) > 0 && args[0][0] != '-' {
		pos = append(pos, args[0])
		args = args[1:]
	}
	fs.Parse(args)
	pos = append(pos, fs.Args()...)

	switch cmd {
	case "calib":
		if len(pos) != 1 {
			usage()
		}
		os.Exit(rules.Calib(*repo, pos[0]))
	case "gendump":
		f := ""
		if len(pos) > 0 {
			f = pos[0]
		}
		os.Exit(rules.GenDump(*repo, f, len(pos) > 1))
	case "replay":
		if len(pos) != 1 {
			usage()
		}
		b, err := os.ReadFile(pos[0])
		if err != nil {
			fmt.Println("cannot read replay file:", err)
			os.Exit(2)
		}
		var r struct{ Property, Rule, Key, Tier string }
		if err := json.Unmarshal(b, &r); err != nil {
			fmt.Println("bad replay file:", err)
			os.Exit(2)
		}
		if r.Tier == "" {
			r.Tier = "quick"
		}
		os.Exit(run(r.Property, r.Tier, *repo, *verif, r.Rule+" "+r.Key))
	case "multi":
		// bebopcheck multi C01,C02,... : several properties in one process
		// (shares the fold of the generator); exit code is the worst one
		if len(pos) != 1 {
			usage()
		}
		worst := 0
		for _, id := range strings.Split(pos[0], ",") {
			e := run(id, *tier, *repo, *verif, "")
			fmt.Printf("RESULT %s exit=%d\n", id, e)
			if e > worst {
				worst = e
			}
		}
		os.Exit(worst)
	case "list":
		ids := rules.IDs()
		sort.Strings(ids)
		for _, id := range ids {
			fmt.Println(id)
		}
	default:
		os.Exit(run(cmd, *tier, *repo, *verif, *only))
	}
}

func run(prop, tier, repo, verif, only string) int {
	fn := rules.Lookup(prop)
	if fn == nil {
		fmt.Printf("unknown property %q\n", prop)
		return 2
	}
	if tier != "quick" && tier != "thorough" {
		fmt.Printf("unknown tier %q\n", tier)
		return 2
	}
	c := core.NewCtx(prop, tier, repo, verif)
	func() {
		defer func() {
			if r := recover(); r != nil {
				c.Undecide("checker panic: %v", r)
			}
		}()
		fn(c)
	}()
	if only != "" {
		var keep []core.Obl
		for _, o := range c.Obls {
			if o.ID() == only {
				keep = append(keep, o)
			}
		}
		if len(keep) == 0 {
			fmt.Printf("replay: obligation %q no longer exists on this tree\n", only)
		}
		for _, o := range keep {
			fmt.Printf("replay: %s ok=%v at %s: %s\n", o.ID(), o.OK, o.Pos, o.Msg)
		}
	}
	return c.Finish()
}

func envOr(k, d string) string {
	if v := os.Getenv(k); v != "" {
		return v
	}
	return d
}

func usage() {
	fmt.Println("usage: bebopcheck <ID>|replay <file>|list [--tier quick|thorough] [--repo DIR]")
	os.Exit(2)
}
