package main

import (
	_ "golang.org/x/tools/go/callgraph/cha"
	_ "golang.org/x/tools/go/callgraph/vta"
	_ "golang.org/x/tools/go/cfg"
	_ "golang.org/x/tools/go/packages"
	_ "golang.org/x/tools/go/ssa"
	_ "golang.org/x/tools/go/ssa/ssautil"
	_ "golang.org/x/tools/go/types/typeutil"
	_ "golang.org/x/tools/go/ast/astutil"
)

func main() {}
